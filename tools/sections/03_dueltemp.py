"""C03: are the temporaries of the local backend's uploads PRIVATE to each upload?  (replicat/backends/local.py)

Two uploads of one object can be in flight at the same time (two workers of one snapshot that both saw `exists() == False` for a chunk
that repeats in the stream; two commands on one directory).  `LocalUpload.lean` proves that every state a kill can leave shows the
old or a complete new object PROVIDED the two uploads write through different temporaries (`concurrent_uploads_atomic`); with one
shared temporary it exhibits a partial object (`shared_temporary_breaks_atomicity`).  This plug-in decides which of the two the code is.

`Local.upload` and `Local.upload_stream` are EXECUTED symbolically (tools/symflow.py: locals resolved through assignments, helper
methods / functions / static methods inlined whatever they are called, branches and early exits normalised).  In the resulting event
list the TEMPORARY of an upload is the source of its rename (`T.replace(dest)` / `T.rename(dest)` / `os.replace(T, dest)` /
`os.rename` / `shutil.move`) — no method or variable name is looked at.

  * `localTempPrivate` — in both functions there is such a rename, and the temporary of every rename is a FRESH name: a call of a
    unique-name generator (`NamedTemporaryFile`, `mkstemp`, `mkdtemp`, `TemporaryDirectory`, `uuid1`, `uuid4`, `token_hex`,
    `token_bytes`, `token_urlsafe`, `urandom`, `getrandbits`), or something built from one in a way that keeps it unique (`.name`,
    `.hex`, element of the `mkstemp` pair, `Path(…)` / `str(…)` / `os.fspath(…)` of it, an f-string / `+` / `/` / `os.path.join` /
    `joinpath` / `with_name` / `with_suffix` with a fresh component).  `.parent`, `.suffix`, … of a fresh name are NOT fresh, a
    generator called at module / class level (a constant of the process) is not seen as a generator call at all.
  * `localTempPerCall`  — every generator call inside such a temporary was made DURING this very execution of `upload` /
    `upload_stream` (it is an event of the run, not a value stored on the object, the class or the module beforehand), outside any
    helper that memoises (`functools.cache` / `lru_cache` / `cached_property` decorators).

Anything else (a name computed from the destination alone, from the pid, from a counter that is not recognised, no rename at all) yields
`false`: `Properties/C03.lean` then stops compiling, and the harness's two-upload schedules look for the concrete failing input.
"""
import ast

import symflow as sf

GENERATORS = {'NamedTemporaryFile', 'mkstemp', 'mkdtemp', 'TemporaryDirectory', 'uuid1', 'uuid4', 'token_hex', 'token_bytes',
              'token_urlsafe', 'urandom', 'getrandbits'}
RENAME_METHODS = {'replace', 'rename'}
RENAME_GLOBALS = {'os.replace', 'os.rename', 'os.renames', 'shutil.move'}
KEEP_ATTRS = {'name', 'hex', 'int', 'bytes', 'stem'}                      # of a fresh value: still unique
KEEP_METHODS = {'hex', 'decode', 'encode', 'resolve', 'absolute', 'as_posix', 'lower', 'upper', 'expanduser', '__str__', '__fspath__'}
BUILD_METHODS = {'joinpath', 'with_name', 'with_suffix', 'with_stem', 'format', 'join'}   # fresh argument (or fresh receiver for joinpath)
WRAP_GLOBALS = {'pathlib.Path', 'pathlib.PurePath', 'pathlib.PosixPath', 'pathlib.WindowsPath', 'Path', 'str', 'bytes', 'repr', 'hex', 'int',
                'os.fspath', 'os.fsdecode', 'os.fsencode', 'os.path.join', 'os.path.abspath', 'os.path.normpath', 'os.path.realpath',
                'format'}


def _is_modvar(t):
    return isinstance(t, tuple) and t and t[0] == 'modvar'


def _is_generator_call(t):
    if not (isinstance(t, tuple) and t and t[0] == 'call'):
        return False
    f = t[1]
    if f[0] == 'global':
        return f[1].rsplit('.', 1)[-1] in GENERATORS
    if f[0] == 'attr':
        return f[2] in GENERATORS
    return False


def _fresh(t, depth=0):
    """is the term a name that is unique to the generator call(s) it contains?"""
    if not isinstance(t, tuple) or not t or depth > 40:
        return False
    k = t[0]
    if _is_generator_call(t):
        return True
    if k == 'attr':
        return t[2] in KEEP_ATTRS and _fresh(t[1], depth + 1)
    if k == 'sub':
        return sf.is_const(t[2], int) and _fresh(t[1], depth + 1)
    if k == 'unpack':
        return _fresh(t[1], depth + 1)
    if k == 'call':
        f, args = t[1], t[2]
        kw = [v for _, v in t[3]]
        if f[0] == 'global' and f[1] in WRAP_GLOBALS:
            return any(_fresh(a, depth + 1) for a in list(args) + kw)
        if f[0] == 'attr':
            if f[2] in KEEP_METHODS:
                return _fresh(f[1], depth + 1)
            if f[2] in BUILD_METHODS:
                return any(_fresh(a, depth + 1) for a in list(args) + kw) or (f[2] in ('joinpath', 'format') and _fresh(f[1], depth + 1))
        return False
    if k == 'binop':
        return t[1] in ('Div', 'Add', 'Mod') and (_fresh(t[2], depth + 1) or _fresh(t[3], depth + 1))
    if k == 'concat':
        return any(_fresh(p, depth + 1) for p in t[1])
    if k == 'fmt':
        return _fresh(t[1], depth + 1)
    if k == 'phi':
        return _fresh(t[2], depth + 1) and _fresh(t[3], depth + 1)
    if k == 'join':
        return bool(t[2]) and all(_fresh(a, depth + 1) for a in t[2])
    return False


def _rename_source(ev):
    """the term that is renamed by this call event, or None"""
    if ev.kind != 'call':
        return None
    f = ev.callee
    if f[0] == 'attr' and f[2] in RENAME_METHODS and len(ev.args) == 1 and not ev.kwargs:
        return f[1]
    if f[0] == 'global' and f[1] in RENAME_GLOBALS and len(ev.args) >= 1:
        return ev.args[0]
    if f[0] == 'global' and f[1] in RENAME_GLOBALS and 'src' in ev.kwargs:
        return ev.kwargs['src']
    return None


def _memoised(interp, mod, ev):
    """is the event inside an inlined helper that carries a caching decorator?"""
    for c in ev.ctx:
        if c[0] != 'inline' or len(c) < 3:
            continue
        node = interp.methods.get(c[2]) or mod.funcs.get(c[2])
        for d in (node.decorator_list if node is not None else []):
            if 'cache' in ast.unparse(d).lower():
                return True
    return False


def analyse(source, cls='Local', functions=('upload', 'upload_stream')):
    """-> (private, per_call, note)"""
    mod = sf.Module(source)
    if cls not in mod.classes:
        return False, False, f'class {cls} not found'
    private, per_call, notes = True, True, []
    for nm in functions:
        interp = sf.Interp(mod, cls)
        try:
            evs, _ = interp.run(nm)
        except sf.TooBig:
            evs = None
        if evs is None:
            return False, False, f'{cls}.{nm} not found / too large'
        temps = [(e, _rename_source(e)) for e in evs]
        temps = [(e, t) for e, t in temps if t is not None]
        if not temps:
            private = per_call = False
            notes.append(f'{nm}: no rename of a temporary onto the destination')
            continue
        for e, t in temps:
            if not _fresh(t):
                private = False
                notes.append(f'{nm}: temporary `{sf.show(t)[:80]}` is not derived from a unique-name generator')
                continue
            gens = [s for s in sf.subterms(t, stop=_is_modvar) if _is_generator_call(s)]
            for g in gens:
                made = [x for x in evs if x.kind == 'call' and x.value == g and x.seq < e.seq]
                if not made or any(_memoised(interp, mod, x) for x in made):
                    per_call = False
                    notes.append(f'{nm}: `{sf.show(g)[:60]}` is not called anew by every upload')
    if private and per_call:
        return True, True, 'temporary derives from a unique-name generator'
    return private, per_call, '; '.join(dict.fromkeys(notes))


def section(ctx):
    private, per_call, why = analyse((ctx.REPO / 'replicat' / 'backends' / 'local.py').read_text())
    ctx.notes['crash.localtemp'] = why
    ctx.emit('/-! ## backends/local.py: are upload temporaries private to each upload? (C03) -/')
    ctx.emit(f'def localTempPrivate : Bool := {"true" if private else "false"}')
    ctx.emit(f'def localTempPerCall : Bool := {"true" if per_call else "false"}')
