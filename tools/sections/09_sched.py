"""C09: the scheduling-relevant shapes of replicat/repository.py, read from the AST.

* `Repository.__init__`: the slot queue is filled with `range(base, concurrent + base)` → `slotBase`, `slotCountIsConcurrent`.
* `_acquire_slot` / `_acquire_slot_threadsafe`: `slot = …get…; try: yield slot; finally: …put_nowait(slot)` → `slotReleaseInFinally`.
* the transfer wrappers (`_exists`, `_download`, `_upload_data`, `_delete` and their `_threadsafe` twins), snapshot's `upload_stream`
  and restore's `download_stream` sit inside a `with self._acquire_slot…` → `transfersUnderSlot`.
* `snapshot._worker`: the loop test, translated as a Boolean function of (queue empty, producer done) → `workerContinues`.
* `snapshot`: `try: await gather(workers) / except: abort.set(); raise / finally: await chunk_producer` → `abortOnWorkerFailure`;
  `_chunk_producer` tests `abort.is_set()` (and returns) before it queues a chunk → `producerStopsOnAbort`; the put itself is a
  `while True:` loop of *timed / non-blocking* attempts (`put(chunk, timeout=…)`, `put(chunk, block=False)`, `put_nowait`) with
  that abort test inside the loop, `queue.Full` swallowed, `break` on success → `producerRechecksWhileFull` (a producer that
  waits on a full queue still sees the flag).  A single blocking `put(chunk)` gives `false`.
* `restore._write_chunk_ref`: `with glock: (get | create + refcount = 1 | refcount += 1)`, `with flock: write`,
  `with glock: refcount -= 1; if not refcount: del` → `flockShapeRecognised`, `flockDelAtZero`.
* `restore._download_chunk`: all writer futures are awaited before the finalisation loop → `loaderJoinsWritersFirst`; the digest is
  removed and the metadata popped under `glock` → `removeUnderGlock`, `popUnderGlock`.
* waits with a finite time-out (`….result(t)`, `….wait(t)`, `wait_for(…, t)`, `asyncio.timeout(t)`, `…(…, timeout=t)` with `t` not
  `None`) anywhere in repository.py.  A wait that is *retried* — it sits in a `while` loop whose handler for the time-out exception
  neither raises, returns nor breaks (the producer's `put`), or it is the loop's test — is an unbounded wait with a periodic
  wake-up.  A wait that is not retried makes the outcome depend on how long something took: in the two slot context managers →
  `slotWaitBounded` (+ `slotWaitTimeoutMs`, 0 when the value is not a literal / module constant), elsewhere →
  `unmodelledTimedWaits` (the model has no transition for them; `timed_waits_covered` demands the list to be empty).
  The slot shape itself (`slotReleaseInFinally`) tolerates statements between the request and the `try: yield slot`.
Anything else than the recognised shapes yields `false` (or an `opaque`); the theorems of Properties/C09.lean that discharge the flag
by `decide` then stop compiling.
"""
import ast


def _bool_expr(ctx, node):
    """Boolean expression over the two atoms of the worker's loop test → Lean term; raises ValueError otherwise."""
    if isinstance(node, ast.BoolOp):
        op = ' && ' if isinstance(node.op, ast.And) else ' || '
        return '(' + op.join(_bool_expr(ctx, v) for v in node.values) + ')'
    if isinstance(node, ast.UnaryOp) and isinstance(node.op, ast.Not):
        return '(!' + _bool_expr(ctx, node.operand) + ')'
    if isinstance(node, ast.Constant) and isinstance(node.value, bool):
        return 'true' if node.value else 'false'
    txt = ctx.unparse(node)
    if txt == 'chunk_queue.empty()':
        return 'queueEmpty'
    if txt == 'chunk_producer.done()':
        return 'producerDone'
    raise ValueError(txt)


def _slot_cm(ctx, fn, put_pred):
    """<slot = …one `_slots.get()` request…, possibly over several statements>; try: yield slot; finally: <put>(slot)"""
    if fn is None or len(fn.body) < 2:
        return False
    pre, t = fn.body[:-1], fn.body[-1]
    binds = [n for st in pre for n in ast.walk(st) if isinstance(n, ast.Assign) and any(ctx.unparse(x) == 'slot' for x in n.targets)]
    gets = sum(ctx.unparse(st).count('_slots.get()') for st in pre)
    puts = sum(ctx.unparse(st).count('put_nowait') for st in pre)
    yields = [n for st in pre for n in ast.walk(st) if isinstance(n, (ast.Yield, ast.YieldFrom))]
    if not (len(binds) == 1 and gets == 1 and puts == 0 and not yields):
        return False
    if not (isinstance(t, ast.Try) and not t.handlers and not t.orelse and len(t.body) == 1 and len(t.finalbody) == 1):
        return False
    return ctx.unparse(t.body[0]) == 'yield slot' and put_pred(ctx.unparse(t.finalbody[0]))


_WAIT_NAMES = {'result', 'exception', 'get', 'put', 'wait', 'wait_for', 'acquire', 'join', 'as_completed', 'timeout', 'timeout_at'}
_TIMEOUT_EXCS = {'TimeoutError', 'concurrent.futures.TimeoutError', 'futures.TimeoutError', 'asyncio.TimeoutError', 'queue.Full', 'queue.Empty',
                 'Full', 'Empty'}


def _timeout_arg(ctx, call):
    """the finite time-out argument of a wait primitive (AST), or None (not a wait / no time-out / `timeout=None`)"""
    f = call.func
    name = f.attr if isinstance(f, ast.Attribute) else (f.id if isinstance(f, ast.Name) else None)
    if name not in _WAIT_NAMES:
        return None
    base = ctx.unparse(f.value) if isinstance(f, ast.Attribute) else ''
    t = {k.arg: k.value for k in call.keywords}.get('timeout')
    a = call.args
    if t is None and not any(isinstance(x, ast.Starred) for x in a):
        lib = base in ('asyncio', 'concurrent.futures', 'futures')
        if name in ('result', 'exception') and len(a) == 1:
            t = a[0]
        elif name == 'wait' and not lib and len(a) == 1:
            t = a[0]
        elif name == 'wait' and lib and len(a) >= 2:
            t = a[1]
        elif name in ('wait_for', 'as_completed') and len(a) >= 2:
            t = a[1]
        elif name in ('timeout', 'timeout_at') and base == 'asyncio' and len(a) == 1:
            t = a[0]
        elif name == 'get' and len(a) == 2 and isinstance(a[0], ast.Constant) and isinstance(a[0].value, bool):
            t = a[1]
        elif name == 'put' and len(a) == 3:
            t = a[2]
        elif name == 'acquire' and len(a) == 2:
            t = a[1]
    if t is None or (isinstance(t, ast.Constant) and t.value is None):
        return None
    return t


def _timed_waits(ctx, tree):
    """→ [(enclosing function names, call node, timeout node, retried?)] for every finite-time-out wait under `tree`"""
    out = []

    def retried(call, chain):
        # nearest enclosing loop inside the same function
        for i in range(len(chain) - 1, -1, -1):
            node = chain[i]
            if isinstance(node, (ast.FunctionDef, ast.AsyncFunctionDef, ast.Lambda)):
                return False
            if isinstance(node, ast.While):
                if any(x is call for x in ast.walk(node.test)):
                    return True             # `while not ev.wait(t): …`
                # try … except <time-out>: <no raise / return / break>
                for tr in chain[i + 1:]:
                    if isinstance(tr, ast.Try) and any(x is call for st in tr.body for x in ast.walk(st)):
                        hs = [h for h in tr.handlers if h.type is not None and (
                            ctx.unparse(h.type) in _TIMEOUT_EXCS
                            or (isinstance(h.type, ast.Tuple) and any(ctx.unparse(e) in _TIMEOUT_EXCS for e in h.type.elts)))]
                        if hs and not any(isinstance(x, (ast.Return, ast.Raise, ast.Break)) for h in hs for st in h.body for x in ast.walk(st)):
                            return True
                return False
            if isinstance(node, (ast.For, ast.AsyncFor)):
                return False
        return False

    def completed(call, chain):
        # `for f in …as_completed(…): f.result(t)` — the future is done, the call does not wait
        f = call.func
        if not (isinstance(f, ast.Attribute) and f.attr in ('result', 'exception') and isinstance(f.value, ast.Name)):
            return False
        return any(isinstance(n, ast.For) and isinstance(n.target, ast.Name) and n.target.id == f.value.id
                   and isinstance(n.iter, ast.Call) and ctx.unparse(n.iter.func).endswith('as_completed') for n in chain)

    def walk(node, chain, funcs):
        for ch in ast.iter_child_nodes(node):
            fs = funcs + [ch.name] if isinstance(ch, (ast.FunctionDef, ast.AsyncFunctionDef)) else funcs
            if isinstance(ch, ast.Call):
                t = _timeout_arg(ctx, ch)
                if t is not None and completed(ch, chain + [node]):
                    t = None
                if t is not None:
                    out.append((funcs, ch, t, retried(ch, chain + [node])))
            walk(ch, chain + [node], fs)
    walk(tree, [], [])
    return out


def _number(ctx, tree, funcs_nodes, t):
    """value of a time-out expression: a literal, a module-level constant, or the default of a parameter of an enclosing function"""
    if isinstance(t, ast.Constant) and isinstance(t.value, (int, float)) and not isinstance(t.value, bool):
        return t.value
    if isinstance(t, ast.Name):
        for fn in reversed(funcs_nodes):
            names = [a.arg for a in fn.args.args]
            d = dict(zip(names[len(names) - len(fn.args.defaults):], fn.args.defaults)).get(t.id)
            if d is not None:
                return _number(ctx, tree, [], d)
        for st in tree.body:
            if isinstance(st, ast.Assign) and any(isinstance(x, ast.Name) and x.id == t.id for x in st.targets):
                return _number(ctx, tree, [], st.value)
    return None


def _lean_str(s):
    return '"' + ''.join(c if (32 <= ord(c) < 127 and c not in '"\\') else '?' for c in s) + '"'


def _under_slot(ctx, fn, call_txt):
    """is the (only) backend call `call_txt` of `fn` lexically inside a `with self._acquire_slot…`?"""
    found = []

    def walk(node, inside):
        for ch in ast.iter_child_nodes(node):
            ins = inside
            if isinstance(ch, (ast.With, ast.AsyncWith)) and any('self._acquire_slot' in ctx.unparse(i.context_expr) for i in ch.items):
                ins = True
            if isinstance(ch, ast.Attribute) and ctx.unparse(ch) == call_txt:
                found.append(inside)
            walk(ch, ins)
    if fn is None:
        return False
    walk(fn, False)
    return bool(found) and all(found)


def _is_abort_return(ctx, st):
    """`if abort.is_set(): …; return`"""
    return (isinstance(st, ast.If) and ctx.unparse(st.test) == 'abort.is_set()' and st.body and isinstance(st.body[-1], ast.Return)
            and not st.orelse)


def _queue_put(ctx, node):
    """→ None | 'blocking' | 'bounded' for a call node that queues the chunk"""
    if not (isinstance(node, ast.Call) and isinstance(node.func, ast.Attribute) and ctx.unparse(node.func.value) == 'chunk_queue'):
        return None
    if node.func.attr == 'put_nowait':
        return 'bounded'
    if node.func.attr != 'put':
        return None
    kw = {k.arg: k.value for k in node.keywords}
    block = kw.get('block', node.args[1] if len(node.args) > 1 else None)
    timeout = kw.get('timeout', node.args[2] if len(node.args) > 2 else None)
    if isinstance(block, ast.Constant) and block.value is False:
        return 'bounded'
    if timeout is not None and not (isinstance(timeout, ast.Constant) and timeout.value is None):
        return 'bounded'        # (a name such as `queue_timeout`: its default is a positive number, checked below)
    return 'blocking'


def _producer_abort_shape(ctx, prod):
    """(tests the abort flag before queuing a chunk?, is the put a loop of bounded attempts that re-tests the flag?)"""
    if prod is None:
        return False, False
    puts = [n for n in ast.walk(prod) if _queue_put(ctx, n) is not None]
    if len(puts) != 1:
        return False, False
    kind = _queue_put(ctx, puts[0])
    # a timeout given by a parameter of the producer must default to a number (None would block)
    for k in puts[0].keywords:
        if k.arg == 'timeout' and isinstance(k.value, ast.Name):
            names = [a.arg for a in prod.args.args]
            dflt = dict(zip(names[len(names) - len(prod.args.defaults):], prod.args.defaults)).get(k.value.id)
            if not (isinstance(dflt, ast.Constant) and isinstance(dflt.value, (int, float)) and not isinstance(dflt.value, bool) and dflt.value >= 0):
                kind = 'blocking'
    # the chain of statement lists from the per-chunk `for` loop down to the put
    loops = [n for n in prod.body if isinstance(n, ast.For)]
    if len(loops) != 1:
        return False, False

    def path_to(stmts, target):
        for i, st in enumerate(stmts):
            if any(x is target for x in ast.walk(st)):
                for field in ('body', 'orelse', 'finalbody'):
                    sub = getattr(st, field, None)
                    if isinstance(sub, list) and any(any(x is target for x in ast.walk(y)) for y in sub if isinstance(y, ast.AST)):
                        return [(stmts, i, st)] + path_to(sub, target)
                for h in getattr(st, 'handlers', []):
                    if any(x is target for x in ast.walk(h)):
                        return [(stmts, i, st)] + path_to(h.body, target)
                return [(stmts, i, st)]
        return []
    path = path_to(loops[0].body, puts[0])
    if not path:
        return False, False
    # (a) an abort test precedes the put on the way down (same statement list, earlier position)
    stops = any(_is_abort_return(ctx, prev) for stmts, i, _ in path for prev in stmts[:i])
    # (b) the innermost enclosing `while True:` re-tests the flag before each bounded attempt, swallows Full and leaves on success
    rechecks = False
    for depth, (stmts, i, st) in enumerate(path):
        if isinstance(st, ast.While) and ctx.unparse(st.test) == 'True' and not st.orelse and depth + 1 < len(path):
            body, j, inner = path[depth + 1]
            test_first = any(_is_abort_return(ctx, prev) for prev in body[:j])
            if isinstance(inner, ast.Try) and not inner.finalbody and any(x is puts[0] for y in inner.body for x in ast.walk(y)):
                full = [h for h in inner.handlers if h.type is not None and ctx.unparse(h.type) in ('queue.Full', 'Full')]
                # `queue.Full` is swallowed: the handler neither leaves the loop nor the function (pass / continue / a sleep / a log line)
                swallowed = (len(inner.handlers) == 1 and len(full) == 1
                             and not any(isinstance(x, (ast.Return, ast.Raise, ast.Break)) for y in full[0].body for x in ast.walk(y)))
                leaves = len(inner.orelse) == 1 and isinstance(inner.orelse[0], ast.Break)
                leaves = leaves or (len(inner.body) >= 2 and isinstance(inner.body[-1], ast.Break))
                rechecks = kind == 'bounded' and test_first and swallowed and leaves
    return stops, stops and rechecks


def section(ctx):
    src = (ctx.REPO / 'replicat' / 'repository.py').read_text()
    tree = ast.parse(src)
    emit, notes, un = ctx.emit, ctx.notes, ctx.unparse

    # ---- slots
    init = ctx.find_func(tree, 'Repository', '__init__')
    base = None
    count_ok = False
    hi_txt = None
    for n in ast.walk(init) if init is not None else []:
        if isinstance(n, ast.For) and un(n.target) == 'slot' and isinstance(n.iter, ast.Call) and un(n.iter.func) == 'range' and len(n.iter.args) == 2:
            lo, hi = n.iter.args
            if isinstance(lo, ast.Constant) and isinstance(lo.value, int):
                base = lo.value
                hi_txt = un(hi)
                count_ok = un(hi) in (f'concurrent + {base}', f'{base} + concurrent') and un(n.body[0]) == 'self._slots.put_nowait(slot)'
    emit(f'def slotBase : Nat := {base}' if base is not None else 'opaque slotBase : Nat')
    emit(f'def slotCountIsConcurrent : Bool := {"true" if count_ok else "false"}')
    # number of slots put into the queue, as a function of `concurrent` (hi - lo of the range)
    cnt = None
    if base is not None and hi_txt is not None:
        try:
            cnt = '(' + ctx.translate(hi_txt, {'concurrent': ('concurrent', 'nat')}, 'nat') + f') - {base}'
        except Exception as e:  # noqa: BLE001
            notes['sched.slot_count'] = f'not translatable: {hi_txt!r}: {e}'
    emit(f'def slotCount (concurrent : Nat) : Nat := {cnt}' if cnt is not None else 'opaque slotCount : Nat → Nat')
    a1 = ctx.find_func(tree, 'Repository', '_acquire_slot')
    a2 = ctx.find_func(tree, 'Repository', '_acquire_slot_threadsafe')
    ctx.fp('repository._acquire_slot', a1)
    ctx.fp('repository._acquire_slot_threadsafe', a2)
    fin = _slot_cm(ctx, a1, lambda s: s == 'self._slots.put_nowait(slot)') and \
        _slot_cm(ctx, a2, lambda s: s == 'loop.call_soon_threadsafe(self._slots.put_nowait, slot)')
    emit(f'def slotReleaseInFinally : Bool := {"true" if fin else "false"}')
    if not fin:
        notes['sched.slot_cm'] = 'slot context managers: acquire / try-yield / finally-release shape not recognised'
    # ---- finite waits: does anything give up after a while?
    bounded, tmo_ms, unmodelled = False, 0, []
    for funcs, call, t, retried in _timed_waits(ctx, tree):
        if retried:
            continue
        where = '.'.join(funcs) or '<module>'
        if funcs and funcs[-1] in ('_acquire_slot', '_acquire_slot_threadsafe'):
            v = _number(ctx, tree, [x for x in (a1, a2) if x is not None and x.name == funcs[-1]], t)
            if not bounded:
                tmo_ms = int(round(v * 1000)) if v is not None and v >= 0 else 0
            bounded = True
            notes[f'sched.slot_wait.{funcs[-1]}'] = f'the slot request gives up after {un(t)} (= {v}) seconds: {un(call)[:80]}'
        else:
            unmodelled.append(f'{where}: {un(call)[:70]}')
    emit(f'def slotWaitBounded : Bool := {"true" if bounded else "false"}')
    emit(f'def slotWaitTimeoutMs : Nat := {tmo_ms}')
    emit('def unmodelledTimedWaits : List String := [' + ', '.join(_lean_str(x) for x in unmodelled) + ']')
    if unmodelled:
        notes['sched.timed_waits'] = 'finite waits that are not retried and have no transition in the model: ' + '; '.join(unmodelled)[:300]
    under = True
    for nm, call in (('_exists', 'self.backend.exists'), ('_download', 'self.backend.download'), ('_upload_data', 'self.backend.upload'),
                     ('_delete', 'self.backend.delete')):
        for suffix in ('', '_threadsafe'):
            ok = _under_slot(ctx, ctx.find_func(tree, 'Repository', nm + suffix), call)
            under = under and ok
            if not ok:
                notes[f'sched.under_slot.{nm}{suffix}'] = f'{call} is not inside `with self._acquire_slot…`'
    snap = ctx.find_func(tree, 'Repository', 'snapshot')
    worker = ctx.find_func(tree, 'Repository', 'snapshot', '_worker')
    rest = ctx.find_func(tree, 'Repository', 'restore')
    dc = ctx.find_func(tree, 'Repository', 'restore', '_download_chunk')
    under = under and _under_slot(ctx, worker, 'self.backend.upload_stream') and _under_slot(ctx, dc, 'self.backend.download_stream')
    emit(f'def transfersUnderSlot : Bool := {"true" if under else "false"}')

    # ---- snapshot: worker loop test, abort protocol
    ctx.fp('repository.snapshot._worker', worker)
    test = None
    if worker is not None:
        loops = [n for n in worker.body if isinstance(n, ast.While)]
        if len(loops) == 1:
            test = loops[0].test
    try:
        term = _bool_expr(ctx, test) if test is not None else None
    except ValueError as e:
        term = None
        notes['sched.worker_test'] = f'loop test not translatable: {e}'
    if term is not None:
        emit(f'def workerContinues (queueEmpty producerDone : Bool) : Bool := {term}')
    else:
        emit('opaque workerContinues : Bool → Bool → Bool')
    abort_ok = False
    for n in ast.walk(snap) if snap is not None else []:
        if isinstance(n, ast.Try) and len(n.body) == 1 and 'asyncio.gather(*(_worker() for _ in range(self._concurrent)))' in un(n.body[0]):
            h = n.handlers
            abort_ok = (len(h) == 1 and h[0].type is None and [un(x) for x in h[0].body] == ['abort.set()', 'raise']
                        and [un(x) for x in n.finalbody] == ['await chunk_producer'])
    emit(f'def abortOnWorkerFailure : Bool := {"true" if abort_ok else "false"}')
    prod = ctx.find_func(tree, 'Repository', 'snapshot', '_chunk_producer')
    ctx.fp('repository.snapshot._chunk_producer', prod)
    stops, rechecks = _producer_abort_shape(ctx, prod)
    emit(f'def producerStopsOnAbort : Bool := {"true" if stops else "false"}')
    emit(f'def producerRechecksWhileFull : Bool := {"true" if rechecks else "false"}')
    if not stops:
        notes['sched.producer_abort'] = '_chunk_producer: no `if abort.is_set(): … return` before the chunk is queued'
    elif not rechecks:
        notes['sched.producer_put'] = '_chunk_producer: the put is not a loop of timed attempts that re-tests the abort flag'

    # ---- restore: per-file write locks
    wr = ctx.find_func(tree, 'Repository', 'restore', '_write_chunk_ref')
    ctx.fp('repository.restore._write_chunk_ref', wr)
    shape = False
    at_zero = False
    if wr is not None:
        withs = [n for n in wr.body if isinstance(n, ast.With)]
        if len(withs) == 3 and [un(w.items[0].context_expr) for w in withs] == ['glock', 'flock', 'glock']:
            w1, w2, w3 = withs
            t = w1.body[0] if len(w1.body) == 1 else None
            reg = (isinstance(t, ast.Try) and [un(x) for x in t.body] == ['flock = flocks[restore_to]']
                   and len(t.handlers) == 1 and un(t.handlers[0].type) == 'KeyError'
                   and [un(x) for x in t.handlers[0].body] == ['flock = flocks[restore_to] = threading.Lock()', 'flocks_refcounts[restore_to] = 1']
                   and [un(x) for x in t.orelse] == ['flocks_refcounts[restore_to] += 1'])
            crit = len(w2.body) == 1 and un(w2.body[0]).startswith('self._write_file_part(restore_to,')
            s3 = [un(x) for x in w3.body]
            dec = 'flocks_refcounts[restore_to] -= 1' in s3
            dels = [x for x in ast.walk(w3) if isinstance(x, ast.Delete)]
            del_ok = len(dels) == 1 and sorted(un(t) for t in dels[0].targets) == ['flocks[restore_to]', 'flocks_refcounts[restore_to]']
            guarded = [x for x in w3.body if isinstance(x, ast.If) and un(x.test) == 'not flocks_refcounts[restore_to]'
                       and any(isinstance(y, ast.Delete) for y in x.body)]
            unguarded = [x for x in w3.body if isinstance(x, ast.Delete)]
            shape = bool(reg and crit and dec and del_ok and (guarded or unguarded))
            at_zero = bool(shape and guarded and not unguarded
                           and s3.index('flocks_refcounts[restore_to] -= 1') < w3.body.index(guarded[0]))
    emit(f'def flockShapeRecognised : Bool := {"true" if shape else "false"}')
    emit(f'def flockDelAtZero : Bool := {"true" if at_zero else "false"}')
    if not shape:
        notes['sched.flock'] = '_write_chunk_ref: register / write / unregister shape not recognised'

    # ---- restore: loader protocol
    joins = False
    rm_locked = False
    pop_locked = False
    if dc is not None:
        idx_join = idx_fin = None
        for i, n in enumerate(dc.body):
            if isinstance(n, ast.For) and un(n.iter) == 'concurrent.futures.as_completed(writer_futures)' and [un(x) for x in n.body] == ['future.result()']:
                idx_join = i
            if isinstance(n, ast.For) and un(n.iter) == 'referenced_paths' and idx_fin is None:
                idx_fin = i
        joins = idx_join is not None and idx_fin is not None and idx_join < idx_fin
        for n in ast.walk(dc):
            if isinstance(n, ast.With) and un(n.items[0].context_expr) == 'glock':
                st = [un(x) for x in n.body]
                if 'digests.remove(digest)' in st:
                    rm_locked = True
                if any('files_metadata.pop(file_path)' in x for x in st):
                    pop_locked = True
        # a remove / pop outside any glock block would be a different shape
        all_rm = [n for n in ast.walk(dc) if isinstance(n, ast.Expr) and un(n) == 'digests.remove(digest)']
        all_pop = [n for n in ast.walk(dc) if isinstance(n, ast.Assign) and 'files_metadata.pop(file_path)' in un(n.value)]
        rm_locked = rm_locked and len(all_rm) == 1
        pop_locked = pop_locked and len(all_pop) == 1
    # the variable tested by `if <var>:` before the pop is assigned inside the very `with glock:` block that removes the digest
    inside = False
    if dc is not None:
        for n in ast.walk(dc):
            if isinstance(n, ast.For) and un(n.iter) == 'referenced_paths':
                body = n.body
                for i, st in enumerate(body):
                    if isinstance(st, ast.If) and any('files_metadata.pop(file_path)' in un(x) for x in ast.walk(st) if isinstance(x, ast.Assign)):
                        var = un(st.test)
                        prev = [b for b in body[:i] if isinstance(b, ast.With) and un(b.items[0].context_expr) == 'glock']
                        if prev and isinstance(st.test, ast.Name):
                            stmts = [un(x) for x in prev[-1].body]
                            inside = ('digests.remove(digest)' in stmts and any(x.startswith(var + ' = ') for x in stmts)
                                      and stmts.index('digests.remove(digest)') < [k for k, x in enumerate(stmts) if x.startswith(var + ' = ')][0]
                                      and not any(isinstance(b, ast.Assign) and un(b.targets[0]) == var for b in body[:i]))
    emit(f'def decisionInsideRemoveBlock : Bool := {"true" if inside else "false"}')
    # after a failed download the operation must not return while loader threads still need the event loop:
    # try: await gather(futures) / except: loader.shutdown(cancel_futures=True); await gather(..., return_exceptions=True); raise
    joins_fail = False
    for n in ast.walk(rest) if rest is not None else []:
        if isinstance(n, ast.Try) and any('asyncio.gather' in un(x) for x in n.body):
            for h in n.handlers:
                txt = [un(x) for x in h.body]
                sh = [k for k, x in enumerate(txt) if x.startswith('loader.shutdown(') and 'cancel_futures=True' in x and 'wait=False' in x]
                wt = [k for k, x in enumerate(txt) if x.startswith('await asyncio.gather(') and 'return_exceptions=True' in x]
                rs = [k for k, x in enumerate(txt) if x == 'raise']
                if h.type is None or un(h.type) in ('BaseException', 'Exception'):
                    joins_fail = joins_fail or bool(sh and wt and rs and sh[0] < wt[0] < rs[0])
    emit(f'def restoreJoinsLoadersOnFailure : Bool := {"true" if joins_fail else "false"}')
    emit(f'def loaderJoinsWritersFirst : Bool := {"true" if joins else "false"}')
    emit(f'def removeUnderGlock : Bool := {"true" if rm_locked else "false"}')
    emit(f'def popUnderGlock : Bool := {"true" if pop_locked else "false"}')
    ctx.fp('repository.restore', rest)
