"""C09: the scheduling-relevant shapes of replicat/repository.py, read from the AST.

* `Repository.__init__`: the slot queue is filled with `range(base, concurrent + base)` → `slotBase`, `slotCountIsConcurrent`.
* `_acquire_slot` / `_acquire_slot_threadsafe`: `slot = …get…; try: yield slot; finally: …put_nowait(slot)` → `slotReleaseInFinally`.
* the transfer wrappers (`_exists`, `_download`, `_upload_data`, `_delete` and their `_threadsafe` twins), snapshot's `upload_stream`
  and restore's `download_stream` sit inside a `with self._acquire_slot…` → `transfersUnderSlot`.
* `snapshot._worker`: the loop test, translated as a Boolean function of (queue empty, producer done) → `workerContinues`.
* `snapshot`: `try: await gather(workers) / except: abort.set(); raise / finally: await chunk_producer` → `abortOnWorkerFailure`;
  `_chunk_producer` tests `abort.is_set()` (and returns) before it queues a chunk → `producerStopsOnAbort`; the put itself is a
  `while True:` loop of *timed / non-blocking* attempts (`put(chunk, timeout=…)`, `put(chunk, block=False)`, `put_nowait`) with
  that abort test inside the loop, `queue.Full` swallowed, `break` on success → `producerRechecksWhileFull` (a producer that
  waits on a full queue still sees the flag).  A single blocking `put(chunk)` gives `false`.
* `restore._write_chunk_ref`: `with glock: (get | create + refcount = 1 | refcount += 1)`, `with flock: write`,
  `with glock: refcount -= 1; if not refcount: del` → `flockShapeRecognised`, `flockDelAtZero`.
* `restore._download_chunk`: all writer futures are awaited before the finalisation loop → `loaderJoinsWritersFirst`; the digest is
  removed and the metadata popped under `glock` → `removeUnderGlock`, `popUnderGlock`.
Anything else than the recognised shapes yields `false` (or an `opaque`); the theorems of Properties/C09.lean that discharge the flag
by `decide` then stop compiling.
"""
import ast


def _bool_expr(ctx, node):
    """Boolean expression over the two atoms of the worker's loop test → Lean term; raises ValueError otherwise."""
    if isinstance(node, ast.BoolOp):
        op = ' && ' if isinstance(node.op, ast.And) else ' || '
        return '(' + op.join(_bool_expr(ctx, v) for v in node.values) + ')'
    if isinstance(node, ast.UnaryOp) and isinstance(node.op, ast.Not):
        return '(!' + _bool_expr(ctx, node.operand) + ')'
    if isinstance(node, ast.Constant) and isinstance(node.value, bool):
        return 'true' if node.value else 'false'
    txt = ctx.unparse(node)
    if txt == 'chunk_queue.empty()':
        return 'queueEmpty'
    if txt == 'chunk_producer.done()':
        return 'producerDone'
    raise ValueError(txt)


def _slot_cm(ctx, fn, put_pred):
    """slot = <…get…>; try: yield slot; finally: <put>(slot)"""
    if fn is None or len(fn.body) != 2:
        return False
    a, t = fn.body
    if not (isinstance(a, ast.Assign) and ctx.unparse(a.targets[0]) == 'slot' and '_slots.get()' in ctx.unparse(a.value)):
        return False
    if not (isinstance(t, ast.Try) and not t.handlers and not t.orelse and len(t.body) == 1 and len(t.finalbody) == 1):
        return False
    return ctx.unparse(t.body[0]) == 'yield slot' and put_pred(ctx.unparse(t.finalbody[0]))


def _under_slot(ctx, fn, call_txt):
    """is the (only) backend call `call_txt` of `fn` lexically inside a `with self._acquire_slot…`?"""
    found = []

    def walk(node, inside):
        for ch in ast.iter_child_nodes(node):
            ins = inside
            if isinstance(ch, (ast.With, ast.AsyncWith)) and any('self._acquire_slot' in ctx.unparse(i.context_expr) for i in ch.items):
                ins = True
            if isinstance(ch, ast.Attribute) and ctx.unparse(ch) == call_txt:
                found.append(inside)
            walk(ch, ins)
    if fn is None:
        return False
    walk(fn, False)
    return bool(found) and all(found)


def _is_abort_return(ctx, st):
    """`if abort.is_set(): …; return`"""
    return (isinstance(st, ast.If) and ctx.unparse(st.test) == 'abort.is_set()' and st.body and isinstance(st.body[-1], ast.Return)
            and not st.orelse)


def _queue_put(ctx, node):
    """→ None | 'blocking' | 'bounded' for a call node that queues the chunk"""
    if not (isinstance(node, ast.Call) and isinstance(node.func, ast.Attribute) and ctx.unparse(node.func.value) == 'chunk_queue'):
        return None
    if node.func.attr == 'put_nowait':
        return 'bounded'
    if node.func.attr != 'put':
        return None
    kw = {k.arg: k.value for k in node.keywords}
    block = kw.get('block', node.args[1] if len(node.args) > 1 else None)
    timeout = kw.get('timeout', node.args[2] if len(node.args) > 2 else None)
    if isinstance(block, ast.Constant) and block.value is False:
        return 'bounded'
    if timeout is not None and not (isinstance(timeout, ast.Constant) and timeout.value is None):
        return 'bounded'        # (a name such as `queue_timeout`: its default is a positive number, checked below)
    return 'blocking'


def _producer_abort_shape(ctx, prod):
    """(tests the abort flag before queuing a chunk?, is the put a loop of bounded attempts that re-tests the flag?)"""
    if prod is None:
        return False, False
    puts = [n for n in ast.walk(prod) if _queue_put(ctx, n) is not None]
    if len(puts) != 1:
        return False, False
    kind = _queue_put(ctx, puts[0])
    # a timeout given by a parameter of the producer must default to a number (None would block)
    for k in puts[0].keywords:
        if k.arg == 'timeout' and isinstance(k.value, ast.Name):
            names = [a.arg for a in prod.args.args]
            dflt = dict(zip(names[len(names) - len(prod.args.defaults):], prod.args.defaults)).get(k.value.id)
            if not (isinstance(dflt, ast.Constant) and isinstance(dflt.value, (int, float)) and not isinstance(dflt.value, bool) and dflt.value >= 0):
                kind = 'blocking'
    # the chain of statement lists from the per-chunk `for` loop down to the put
    loops = [n for n in prod.body if isinstance(n, ast.For)]
    if len(loops) != 1:
        return False, False

    def path_to(stmts, target):
        for i, st in enumerate(stmts):
            if any(x is target for x in ast.walk(st)):
                for field in ('body', 'orelse', 'finalbody'):
                    sub = getattr(st, field, None)
                    if isinstance(sub, list) and any(any(x is target for x in ast.walk(y)) for y in sub if isinstance(y, ast.AST)):
                        return [(stmts, i, st)] + path_to(sub, target)
                for h in getattr(st, 'handlers', []):
                    if any(x is target for x in ast.walk(h)):
                        return [(stmts, i, st)] + path_to(h.body, target)
                return [(stmts, i, st)]
        return []
    path = path_to(loops[0].body, puts[0])
    if not path:
        return False, False
    # (a) an abort test precedes the put on the way down (same statement list, earlier position)
    stops = any(_is_abort_return(ctx, prev) for stmts, i, _ in path for prev in stmts[:i])
    # (b) the innermost enclosing `while True:` re-tests the flag before each bounded attempt, swallows Full and leaves on success
    rechecks = False
    for depth, (stmts, i, st) in enumerate(path):
        if isinstance(st, ast.While) and ctx.unparse(st.test) == 'True' and not st.orelse and depth + 1 < len(path):
            body, j, inner = path[depth + 1]
            test_first = any(_is_abort_return(ctx, prev) for prev in body[:j])
            if isinstance(inner, ast.Try) and not inner.finalbody and any(x is puts[0] for y in inner.body for x in ast.walk(y)):
                full = [h for h in inner.handlers if h.type is not None and ctx.unparse(h.type) in ('queue.Full', 'Full')]
                # `queue.Full` is swallowed: the handler neither leaves the loop nor the function (pass / continue / a sleep / a log line)
                swallowed = (len(inner.handlers) == 1 and len(full) == 1
                             and not any(isinstance(x, (ast.Return, ast.Raise, ast.Break)) for y in full[0].body for x in ast.walk(y)))
                leaves = len(inner.orelse) == 1 and isinstance(inner.orelse[0], ast.Break)
                leaves = leaves or (len(inner.body) >= 2 and isinstance(inner.body[-1], ast.Break))
                rechecks = kind == 'bounded' and test_first and swallowed and leaves
    return stops, stops and rechecks


def section(ctx):
    src = (ctx.REPO / 'replicat' / 'repository.py').read_text()
    tree = ast.parse(src)
    emit, notes, un = ctx.emit, ctx.notes, ctx.unparse

    # ---- slots
    init = ctx.find_func(tree, 'Repository', '__init__')
    base = None
    count_ok = False
    hi_txt = None
    for n in ast.walk(init) if init is not None else []:
        if isinstance(n, ast.For) and un(n.target) == 'slot' and isinstance(n.iter, ast.Call) and un(n.iter.func) == 'range' and len(n.iter.args) == 2:
            lo, hi = n.iter.args
            if isinstance(lo, ast.Constant) and isinstance(lo.value, int):
                base = lo.value
                hi_txt = un(hi)
                count_ok = un(hi) in (f'concurrent + {base}', f'{base} + concurrent') and un(n.body[0]) == 'self._slots.put_nowait(slot)'
    emit(f'def slotBase : Nat := {base}' if base is not None else 'opaque slotBase : Nat')
    emit(f'def slotCountIsConcurrent : Bool := {"true" if count_ok else "false"}')
    # number of slots put into the queue, as a function of `concurrent` (hi - lo of the range)
    cnt = None
    if base is not None and hi_txt is not None:
        try:
            cnt = '(' + ctx.translate(hi_txt, {'concurrent': ('concurrent', 'nat')}, 'nat') + f') - {base}'
        except Exception as e:  # noqa: BLE001
            notes['sched.slot_count'] = f'not translatable: {hi_txt!r}: {e}'
    emit(f'def slotCount (concurrent : Nat) : Nat := {cnt}' if cnt is not None else 'opaque slotCount : Nat → Nat')
    a1 = ctx.find_func(tree, 'Repository', '_acquire_slot')
    a2 = ctx.find_func(tree, 'Repository', '_acquire_slot_threadsafe')
    ctx.fp('repository._acquire_slot', a1)
    ctx.fp('repository._acquire_slot_threadsafe', a2)
    fin = _slot_cm(ctx, a1, lambda s: s == 'self._slots.put_nowait(slot)') and \
        _slot_cm(ctx, a2, lambda s: s == 'loop.call_soon_threadsafe(self._slots.put_nowait, slot)')
    emit(f'def slotReleaseInFinally : Bool := {"true" if fin else "false"}')
    if not fin:
        notes['sched.slot_cm'] = 'slot context managers: acquire / try-yield / finally-release shape not recognised'
    under = True
    for nm, call in (('_exists', 'self.backend.exists'), ('_download', 'self.backend.download'), ('_upload_data', 'self.backend.upload'),
                     ('_delete', 'self.backend.delete')):
        for suffix in ('', '_threadsafe'):
            ok = _under_slot(ctx, ctx.find_func(tree, 'Repository', nm + suffix), call)
            under = under and ok
            if not ok:
                notes[f'sched.under_slot.{nm}{suffix}'] = f'{call} is not inside `with self._acquire_slot…`'
    snap = ctx.find_func(tree, 'Repository', 'snapshot')
    worker = ctx.find_func(tree, 'Repository', 'snapshot', '_worker')
    rest = ctx.find_func(tree, 'Repository', 'restore')
    dc = ctx.find_func(tree, 'Repository', 'restore', '_download_chunk')
    under = under and _under_slot(ctx, worker, 'self.backend.upload_stream') and _under_slot(ctx, dc, 'self.backend.download_stream')
    emit(f'def transfersUnderSlot : Bool := {"true" if under else "false"}')

    # ---- snapshot: worker loop test, abort protocol
    ctx.fp('repository.snapshot._worker', worker)
    test = None
    if worker is not None:
        loops = [n for n in worker.body if isinstance(n, ast.While)]
        if len(loops) == 1:
            test = loops[0].test
    try:
        term = _bool_expr(ctx, test) if test is not None else None
    except ValueError as e:
        term = None
        notes['sched.worker_test'] = f'loop test not translatable: {e}'
    if term is not None:
        emit(f'def workerContinues (queueEmpty producerDone : Bool) : Bool := {term}')
    else:
        emit('opaque workerContinues : Bool → Bool → Bool')
    abort_ok = False
    for n in ast.walk(snap) if snap is not None else []:
        if isinstance(n, ast.Try) and len(n.body) == 1 and 'asyncio.gather(*(_worker() for _ in range(self._concurrent)))' in un(n.body[0]):
            h = n.handlers
            abort_ok = (len(h) == 1 and h[0].type is None and [un(x) for x in h[0].body] == ['abort.set()', 'raise']
                        and [un(x) for x in n.finalbody] == ['await chunk_producer'])
    emit(f'def abortOnWorkerFailure : Bool := {"true" if abort_ok else "false"}')
    prod = ctx.find_func(tree, 'Repository', 'snapshot', '_chunk_producer')
    ctx.fp('repository.snapshot._chunk_producer', prod)
    stops, rechecks = _producer_abort_shape(ctx, prod)
    emit(f'def producerStopsOnAbort : Bool := {"true" if stops else "false"}')
    emit(f'def producerRechecksWhileFull : Bool := {"true" if rechecks else "false"}')
    if not stops:
        notes['sched.producer_abort'] = '_chunk_producer: no `if abort.is_set(): … return` before the chunk is queued'
    elif not rechecks:
        notes['sched.producer_put'] = '_chunk_producer: the put is not a loop of timed attempts that re-tests the abort flag'

    # ---- restore: per-file write locks
    wr = ctx.find_func(tree, 'Repository', 'restore', '_write_chunk_ref')
    ctx.fp('repository.restore._write_chunk_ref', wr)
    shape = False
    at_zero = False
    if wr is not None:
        withs = [n for n in wr.body if isinstance(n, ast.With)]
        if len(withs) == 3 and [un(w.items[0].context_expr) for w in withs] == ['glock', 'flock', 'glock']:
            w1, w2, w3 = withs
            t = w1.body[0] if len(w1.body) == 1 else None
            reg = (isinstance(t, ast.Try) and [un(x) for x in t.body] == ['flock = flocks[restore_to]']
                   and len(t.handlers) == 1 and un(t.handlers[0].type) == 'KeyError'
                   and [un(x) for x in t.handlers[0].body] == ['flock = flocks[restore_to] = threading.Lock()', 'flocks_refcounts[restore_to] = 1']
                   and [un(x) for x in t.orelse] == ['flocks_refcounts[restore_to] += 1'])
            crit = len(w2.body) == 1 and un(w2.body[0]).startswith('self._write_file_part(restore_to,')
            s3 = [un(x) for x in w3.body]
            dec = 'flocks_refcounts[restore_to] -= 1' in s3
            dels = [x for x in ast.walk(w3) if isinstance(x, ast.Delete)]
            del_ok = len(dels) == 1 and sorted(un(t) for t in dels[0].targets) == ['flocks[restore_to]', 'flocks_refcounts[restore_to]']
            guarded = [x for x in w3.body if isinstance(x, ast.If) and un(x.test) == 'not flocks_refcounts[restore_to]'
                       and any(isinstance(y, ast.Delete) for y in x.body)]
            unguarded = [x for x in w3.body if isinstance(x, ast.Delete)]
            shape = bool(reg and crit and dec and del_ok and (guarded or unguarded))
            at_zero = bool(shape and guarded and not unguarded
                           and s3.index('flocks_refcounts[restore_to] -= 1') < w3.body.index(guarded[0]))
    emit(f'def flockShapeRecognised : Bool := {"true" if shape else "false"}')
    emit(f'def flockDelAtZero : Bool := {"true" if at_zero else "false"}')
    if not shape:
        notes['sched.flock'] = '_write_chunk_ref: register / write / unregister shape not recognised'

    # ---- restore: loader protocol
    joins = False
    rm_locked = False
    pop_locked = False
    if dc is not None:
        idx_join = idx_fin = None
        for i, n in enumerate(dc.body):
            if isinstance(n, ast.For) and un(n.iter) == 'concurrent.futures.as_completed(writer_futures)' and [un(x) for x in n.body] == ['future.result()']:
                idx_join = i
            if isinstance(n, ast.For) and un(n.iter) == 'referenced_paths' and idx_fin is None:
                idx_fin = i
        joins = idx_join is not None and idx_fin is not None and idx_join < idx_fin
        for n in ast.walk(dc):
            if isinstance(n, ast.With) and un(n.items[0].context_expr) == 'glock':
                st = [un(x) for x in n.body]
                if 'digests.remove(digest)' in st:
                    rm_locked = True
                if any('files_metadata.pop(file_path)' in x for x in st):
                    pop_locked = True
        # a remove / pop outside any glock block would be a different shape
        all_rm = [n for n in ast.walk(dc) if isinstance(n, ast.Expr) and un(n) == 'digests.remove(digest)']
        all_pop = [n for n in ast.walk(dc) if isinstance(n, ast.Assign) and 'files_metadata.pop(file_path)' in un(n.value)]
        rm_locked = rm_locked and len(all_rm) == 1
        pop_locked = pop_locked and len(all_pop) == 1
    # the variable tested by `if <var>:` before the pop is assigned inside the very `with glock:` block that removes the digest
    inside = False
    if dc is not None:
        for n in ast.walk(dc):
            if isinstance(n, ast.For) and un(n.iter) == 'referenced_paths':
                body = n.body
                for i, st in enumerate(body):
                    if isinstance(st, ast.If) and any('files_metadata.pop(file_path)' in un(x) for x in ast.walk(st) if isinstance(x, ast.Assign)):
                        var = un(st.test)
                        prev = [b for b in body[:i] if isinstance(b, ast.With) and un(b.items[0].context_expr) == 'glock']
                        if prev and isinstance(st.test, ast.Name):
                            stmts = [un(x) for x in prev[-1].body]
                            inside = ('digests.remove(digest)' in stmts and any(x.startswith(var + ' = ') for x in stmts)
                                      and stmts.index('digests.remove(digest)') < [k for k, x in enumerate(stmts) if x.startswith(var + ' = ')][0]
                                      and not any(isinstance(b, ast.Assign) and un(b.targets[0]) == var for b in body[:i]))
    emit(f'def decisionInsideRemoveBlock : Bool := {"true" if inside else "false"}')
    # after a failed download the operation must not return while loader threads still need the event loop:
    # try: await gather(futures) / except: loader.shutdown(cancel_futures=True); await gather(..., return_exceptions=True); raise
    joins_fail = False
    for n in ast.walk(rest) if rest is not None else []:
        if isinstance(n, ast.Try) and any('asyncio.gather' in un(x) for x in n.body):
            for h in n.handlers:
                txt = [un(x) for x in h.body]
                sh = [k for k, x in enumerate(txt) if x.startswith('loader.shutdown(') and 'cancel_futures=True' in x and 'wait=False' in x]
                wt = [k for k, x in enumerate(txt) if x.startswith('await asyncio.gather(') and 'return_exceptions=True' in x]
                rs = [k for k, x in enumerate(txt) if x == 'raise']
                if h.type is None or un(h.type) in ('BaseException', 'Exception'):
                    joins_fail = joins_fail or bool(sh and wt and rs and sh[0] < wt[0] < rs[0])
    emit(f'def restoreJoinsLoadersOnFailure : Bool := {"true" if joins_fail else "false"}')
    emit(f'def loaderJoinsWritersFirst : Bool := {"true" if joins else "false"}')
    emit(f'def removeUnderGlock : Bool := {"true" if rm_locked else "false"}')
    emit(f'def popUnderGlock : Bool := {"true" if pop_locked else "false"}')
    ctx.fp('repository.restore', rest)
