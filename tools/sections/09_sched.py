"""C09: the scheduling-relevant facts of replicat/repository.py, computed from the AST by small abstract interpreters.

Nothing here keys on the name of a local variable, a private attribute or a private / nested function.  The objects the facts speak
about are found by what they ARE and what is DONE with them:

* the slot queue      = the `self.<attr>` that `Repository.__init__` fills with `range(lo, hi)` (`put_nowait` in a loop);
* the slot managers   = the generator methods that take a value out of that queue;
* producer / worker   = the nested function of `snapshot` handed to `run_in_executor` / `submit`; the nested coroutine(s) gathered;
* abort flag, chunk queue, producer future = the `threading.Event`, `queue.Queue`, executor future created once in `snapshot`
  (the queue is the one the producer puts into, the flag the one the failure handler sets);
* loader / writer     = the nested function of `restore` handed to `run_in_executor`, and the one it submits to an executor;
* registry lock, lock table, ref-count table, pending sets, metadata table = `threading.Lock()` / `{}` created once in `restore`,
  told apart by use (what is stored into them, what is removed from them).

A path-enumerating interpreter (`_Machine`) executes the statements of the function under analysis: `if` / `while` / `for` / `try` /
`with` / `return` / `break` / `continue`, conditional and Boolean expressions, walrus, locals (aliases, hoisted values, flags),
calls to nested functions, `self.` methods and module functions are followed (inlined, ≤ 4 deep, arguments bound to parameters).
A *domain* gives meaning to the primitive operations of one question and records events together with the locks held:

* `_ProducerDom`  (`producerStopsOnAbort`, `producerRechecksWhileFull`): events `A+`/`A-` (abort flag tested: set / clear), `P+`/`PF`
  (put succeeded / raised `queue.Full`) per chunk.  *stops*: every put attempt is preceded by a fresh `A-`, `A+` leaves the
  producer without a put.  *rechecks*: additionally the put is bounded (time-out / non-blocking), after `PF` the flag is tested
  again before anything else happens to the chunk, the chunk is never dropped nor queued twice.  A blocking `put(chunk)` ⇒ false.
* `_FlockDom`  (`flockShapeRecognised`, `flockDelAtZero`): the writer is run symbolically from "key absent" and from "key present
  with count c ≥ 1": all table accesses under the one registry lock; at the write exactly the file's lock (the table's current
  entry) is held and the count is start + 1; afterwards the count is back, and the entries are deleted when it reached zero
  (`flockShapeRecognised`) and only then (`flockDelAtZero`).
* `_LoaderDom`  (`loaderJoinsWritersFirst`, `removeUnderGlock`, `popUnderGlock`, `decisionInsideRemoveBlock`): every submitted
  writer future is joined before the first removal from a pending set; removal and `pop` happen with the registry lock held; the
  `pop` is reached only on paths where the emptiness of that very set was evaluated after the removal, inside the same critical
  section (same acquisition of the lock).

Static (lexical, but name-free) parts: `slotBase`, `slotCount`, `slotCountIsConcurrent` (range bounds as linear forms in
`concurrent`), `slotReleaseInFinally` (one request, `try: yield` the value, the give-back in `finally`), `transfersUnderSlot` (every
`self.backend.<transfer>` reference is inside `with <slot manager>` — or held in a local used only there, or in a function called
only from there), `workerContinues` (loop test → Boolean term over *queue empty* / *producer done*, through helper functions and
`while True: if …: break`), `abortOnWorkerFailure`, `restoreJoinsLoadersOnFailure`, and the finite waits
(`slotWaitBounded`, `slotWaitTimeoutMs`, `unmodelledTimedWaits`; unchanged in substance).

Soundness: whatever the interpreters do not understand at a place that matters (a primitive inside a lambda, a generator helper,
an unknown comparison of the count, too many paths …) raises `_Unknown` ⇒ the fact is `false` (or `opaque`) and the theorems of
Properties/C09.lean that discharge it by `decide` stop compiling.  Never a guessed `true`.
"""
import ast
import itertools


class _Unknown(Exception):
    pass


_FUNCS = (ast.FunctionDef, ast.AsyncFunctionDef)
_LOGGING_ROOTS = {'logger', 'logging', 'log', 'print', 'warnings'}


# ---------------------------------------------------------------------------------------------------------------- AST utilities
def _walk_local(node):
    """ast.walk that does not descend into nested function / class definitions and lambdas (the root itself is always yielded)"""
    todo = [node]
    while todo:
        n = todo.pop()
        yield n
        for ch in ast.iter_child_nodes(n):
            if not isinstance(ch, _FUNCS + (ast.ClassDef, ast.Lambda)):
                todo.append(ch)


def _body_walk(fn):
    """all nodes of the body of function `fn`, nested definitions excluded"""
    for st in fn.body:
        if isinstance(st, _FUNCS + (ast.ClassDef,)):
            continue
        yield from _walk_local(st)


def _nested_defs(fn):
    return {st.name: st for st in _body_walk_defs(fn)}


def _body_walk_defs(fn):
    """function definitions directly nested in `fn` (at any block depth, not inside other functions)"""
    todo = list(fn.body)
    while todo:
        n = todo.pop()
        if isinstance(n, _FUNCS):
            yield n
            continue
        if isinstance(n, (ast.ClassDef, ast.Lambda)):
            continue
        todo.extend(ch for ch in ast.iter_child_nodes(n) if isinstance(ch, (ast.stmt, ast.ExceptHandler)))


def _is_generator(fn):
    return any(isinstance(n, (ast.Yield, ast.YieldFrom)) for n in _body_walk(fn))


def _call_name(node):
    """last component of the callee of a Call (`a.b.c(…)` → 'c'), or None"""
    if not isinstance(node, ast.Call):
        return None
    f = node.func
    return f.attr if isinstance(f, ast.Attribute) else (f.id if isinstance(f, ast.Name) else None)


def _root_name(node):
    while isinstance(node, (ast.Attribute, ast.Subscript, ast.Call)):
        node = node.func if isinstance(node, ast.Call) else node.value
    return node.id if isinstance(node, ast.Name) else None


def _self_attr(node):
    """'self.x' for the AST of `self.x`, else None"""
    if isinstance(node, ast.Attribute) and isinstance(node.value, ast.Name) and node.value.id == 'self':
        return 'self.' + node.attr
    return None


def _assign_targets(node):
    if isinstance(node, ast.Assign):
        return node.targets
    if isinstance(node, (ast.AugAssign, ast.AnnAssign, ast.NamedExpr)):
        return [node.target]
    return []


def _bound_names(fn):
    """name → list of value nodes (None when bound by something that is not a plain `name = value`) over the body of `fn`"""
    out = {}

    def bind(t, v):
        if isinstance(t, ast.Name):
            out.setdefault(t.id, []).append(v)
        elif isinstance(t, (ast.Tuple, ast.List)):
            for e in t.elts:
                bind(e, None)
        elif isinstance(t, ast.Starred):
            bind(t.value, None)
    for n in _body_walk(fn):
        if isinstance(n, ast.Assign):
            for t in n.targets:
                bind(t, n.value)
        elif isinstance(n, ast.AnnAssign):
            bind(n.target, n.value)
        elif isinstance(n, ast.NamedExpr):
            bind(n.target, n.value)
        elif isinstance(n, ast.AugAssign):
            bind(n.target, None)
        elif isinstance(n, (ast.For, ast.AsyncFor)):
            bind(n.target, None)
        elif isinstance(n, (ast.With, ast.AsyncWith)):
            for i in n.items:
                if i.optional_vars is not None:
                    bind(i.optional_vars, None)
        elif isinstance(n, ast.ExceptHandler) and n.name:
            out.setdefault(n.name, []).append(None)
        elif isinstance(n, ast.comprehension):
            pass
    return out


_KIND_BY_CTOR = {
    'Event': 'event', 'Lock': 'lock', 'RLock': 'lock',
    'Queue': 'queue', 'LifoQueue': 'queue', 'PriorityQueue': 'queue', 'SimpleQueue': 'queue',
    'ThreadPoolExecutor': 'executor',
    'dict': 'dict', 'defaultdict': 'dict', 'OrderedDict': 'dict', 'Counter': 'dict',
    'set': 'set', 'list': 'list',
}


def _classify(value):
    """kind of the object a creation expression makes (None: not one of the kinds the analyses care about)"""
    if isinstance(value, ast.Dict) and not value.keys:
        return 'dict'
    if isinstance(value, ast.Call):
        nm = _call_name(value)
        if nm in _KIND_BY_CTOR:
            if nm in ('dict', 'set', 'list', 'OrderedDict') and (value.args or value.keywords):
                return None
            return _KIND_BY_CTOR[nm]
        if nm in ('run_in_executor', 'submit'):
            return 'future'
    return None


def _dict_default(value):
    """'int' for defaultdict(int) / Counter(): a missing key reads as 0"""
    if isinstance(value, ast.Call):
        nm = _call_name(value)
        if nm == 'Counter' and not value.args:
            return 'int'
        if nm == 'defaultdict' and len(value.args) == 1 and isinstance(value.args[0], ast.Name) and value.args[0].id == 'int':
            return 'int'
    return None


# ---------------------------------------------------------------------------------------------------------------- values
# abstract values: None (unknown), ('const', python constant), ('obj', kind, name)  — an object created once in an enclosing scope,
# ('fn', FunctionDef, is_method), ('sym', n) — an unknown but named value (aliases share it), ('not', v), domain values (tuples).
_sym_counter = itertools.count(1)


def _fresh(tag='sym'):
    return (tag, next(_sym_counter))


class _St:
    """one path of the interpreter"""
    __slots__ = ('env', 'trace', 'held', 'data', 'choices', 'steps', 'depth', 'stack')

    def __init__(self):
        self.env, self.trace, self.held, self.data = {}, (), (), {}
        self.choices = self.steps = self.depth = 0
        self.stack = ()

    def fork(self):
        s = _St()
        s.env, s.trace, s.held, s.data = dict(self.env), self.trace, self.held, dict(self.data)
        s.choices, s.steps, s.depth, s.stack = self.choices, self.steps, self.depth, self.stack
        return s

    def ev(self, *e):
        self.trace = self.trace + (e,)
        return self


class _Dom:
    """default domain: no primitive operations"""
    max_paths = 4000
    max_steps = 60
    site_calls = ()          # attribute / function names whose calls matter to this domain (must not be skipped over)

    def prim(self, m, node, st):
        return None

    def call(self, m, node, fval, recv, args, kwargs, st):
        return None

    def store(self, m, target, value, st):
        return None

    def aug(self, m, node, st):
        return None

    def delete(self, m, target, st):
        return None

    def enter(self, m, value, st):
        return None            # → token pushed on st.held (or None)

    def decide(self, m, v, st):
        return None

    def matches(self, m, type_node, kind, st):
        """does `except <type_node>` catch the abstract exception `kind`?"""
        if type_node is None:
            return True
        names = [type_node] if not isinstance(type_node, ast.Tuple) else type_node.elts
        for n in names:
            txt = ast.unparse(n)
            if txt.split('.')[-1] in (kind, 'Exception', 'BaseException'):
                return True
        return False

    def bind_for(self, m, itervalue, st):
        return None

    def comp(self, m, node, st):
        return None

    def single(self, node):
        """execute this loop's body exactly once (the per-item loop of the function under analysis)"""
        return False

    def loop_end(self, node, sig, st):
        pass

    def is_site(self, node):
        return isinstance(node, ast.Call) and _call_name(node) in self.site_calls

    danger_calls = None      # the sites whose omission could make a fact come out true (default: all of site_calls)

    def is_danger(self, node):
        if self.danger_calls is None:
            return self.is_site(node)
        return isinstance(node, ast.Call) and _call_name(node) in self.danger_calls


class _Machine:
    """Path-enumerating abstract interpreter.  `exec_block` → [(signal, state)], signal ∈ 'next' | 'break' | 'continue' |
    ('return', value) | ('exc', kind) | 'cut' (path abandoned: budget).  `eval` → [(kind, value, state)], kind ∈ 'val' | 'exc' | 'cut'."""

    def __init__(self, dom, funcs_env):
        self.dom = dom
        self.funcs_env = funcs_env        # name / 'self.name' → ('fn', node, is_method): callable helpers
        self.paths = 0
        self._reach_cache = {}

    # ------------------------------------------------------------------ does this sub-tree matter to the domain?
    def reaches(self, node, pred, tag, depth=0, seen=()):
        """is a node satisfying `pred` below `node`, or in the body of a helper called (≤ 4 levels) from below `node`?"""
        key = (id(node), tag)
        if depth == 0 and key in self._reach_cache:
            return self._reach_cache[key]
        r = False
        for n in ast.walk(node):
            if pred(n):
                r = True
                break
            if isinstance(n, ast.Call) and depth < 4:
                fv = self.static_callee(n.func)
                if fv is not None and fv[1] not in seen and fv[1] is not node:
                    if any(self.reaches(st, pred, tag, depth + 1, seen + (fv[1],)) for st in fv[1].body):
                        r = True
                        break
        if depth == 0:
            self._reach_cache[key] = r
        return r

    def reaches_site(self, node):
        return self.reaches(node, self.dom.is_site, 'site')

    def sites(self, node, pred, depth=0, seen=()):
        """the nodes satisfying `pred` below `node` and in the helpers called from there"""
        out = []
        for n in ast.walk(node):
            if pred(n):
                out.append(n)
            if isinstance(n, ast.Call) and depth < 4:
                fv = self.static_callee(n.func)
                if fv is not None and fv[1] not in seen and fv[1] is not node:
                    for st in fv[1].body:
                        out.extend(self.sites(st, pred, depth + 1, seen + (fv[1],)))
        uniq = []
        for n in out:
            if not any(n is u for u in uniq):
                uniq.append(n)
        return uniq

    def peek(self, node, st):
        """value of a plain name / `self.attr` (no effects), else None"""
        if isinstance(node, ast.Name):
            return st.env[node.id] if node.id in st.env else self.funcs_env.get(node.id)
        k = _self_attr(node)
        if k is not None:
            return st.env[k] if k in st.env else self.funcs_env.get(k)
        return None

    def static_callee(self, func):
        if isinstance(func, ast.Name):
            return self.funcs_env.get(func.id)
        k = _self_attr(func)
        return self.funcs_env.get(k) if k else None

    def skip(self, node):
        """a sub-tree the interpreter does not execute must not contain anything the domain cares about"""
        if self.reaches(node, self.dom.is_danger, 'danger'):
            raise _Unknown('primitive inside ' + type(node).__name__)

    def tick(self):
        self.paths += 1
        if self.paths > self.dom.max_paths:
            raise _Unknown('too many paths')

    # ------------------------------------------------------------------ branching
    def decide(self, v, st):
        """→ [(bool, state)]"""
        if isinstance(v, tuple):
            if v[0] == 'const':
                return [(bool(v[1]), st)]
            if v[0] == 'not':
                return [(not b, s) for b, s in self.decide(v[1], st)]
            if v[0] in ('obj', 'fn'):
                return [(True, st)]
            r = self.dom.decide(self, v, st)
            if r is not None:
                return r
            if v[0] == 'sym':
                dec = st.data.get('dec', ())
                for k, b in dec:
                    if k == v:
                        return [(b, st)]
                out = []
                for b in (True, False):
                    s = st.fork()
                    s.data['dec'] = dec + ((v, b),)
                    out.append((b, s))
                self.tick()
                return out
        self.tick()
        return [(True, st), (False, st.fork())]

    # ------------------------------------------------------------------ expressions
    def eval_seq(self, nodes, st):
        """evaluate expressions left to right → [(kind, [values], state)]"""
        outs = [('val', [], st)]
        for n in nodes:
            nxt = []
            for kind, vals, s in outs:
                if kind != 'val':
                    nxt.append((kind, vals, s))
                    continue
                for k2, v2, s2 in self.eval(n, s):
                    nxt.append((k2, vals + [v2], s2) if k2 == 'val' else (k2, v2, s2))
            outs = nxt
        return outs

    def eval(self, node, st):
        r = self.dom.prim(self, node, st)
        if r is not None:
            return r
        t = type(node)
        if t is ast.Constant:
            return [('val', ('const', node.value), st)]
        if t is ast.Name:
            if node.id in st.env:
                return [('val', st.env[node.id], st)]
            return [('val', self.funcs_env.get(node.id), st)]
        if t is ast.Attribute:
            k = _self_attr(node)
            if k is not None:
                if k in st.env:
                    return [('val', st.env[k], st)]
                return [('val', self.funcs_env.get(k), st)]
            return [(kd, None if kd == 'val' else v, s) for kd, v, s in self.eval(node.value, st)]
        if t is ast.NamedExpr:
            out = []
            for kd, v, s in self.eval(node.value, st):
                if kd == 'val':
                    if v is None:
                        v = _fresh()
                    s.env[node.target.id] = v
                out.append((kd, v, s))
            return out
        if t is ast.UnaryOp and isinstance(node.op, ast.Not):
            out = []
            for kd, v, s in self.eval(node.operand, st):
                if kd != 'val':
                    out.append((kd, v, s))
                elif isinstance(v, tuple) and v[0] == 'const':
                    out.append(('val', ('const', not v[1]), s))
                elif v is None:
                    out.append(('val', None, s))
                else:
                    out.append(('val', ('not', v), s))
            return out
        if t is ast.BoolOp:
            is_and = isinstance(node.op, ast.And)
            outs = []

            def go(i, s):
                for kd, v, s2 in self.eval(node.values[i], s):
                    if kd != 'val':
                        outs.append((kd, v, s2))
                        continue
                    if i == len(node.values) - 1:
                        outs.append(('val', v, s2))
                        continue
                    for b, s3 in self.decide(v, s2):
                        if b == is_and:
                            go(i + 1, s3)
                        else:
                            outs.append(('val', ('const', b), s3))
            go(0, st)
            return outs
        if t is ast.IfExp:
            outs = []
            for kd, v, s in self.eval(node.test, st):
                if kd != 'val':
                    outs.append((kd, v, s))
                    continue
                for b, s2 in self.decide(v, s):
                    outs.extend(self.eval(node.body if b else node.orelse, s2))
            return outs
        if t is ast.Compare:
            outs = []
            for kd, vals, s in self.eval_seq([node.left] + node.comparators, st):
                if kd != 'val':
                    outs.append((kd, vals, s))
                    continue
                res = None
                if len(node.ops) == 1 and all(isinstance(v, tuple) and v[0] == 'const' for v in vals):
                    a, b = vals[0][1], vals[1][1]
                    try:
                        res = {ast.Eq: lambda: a == b, ast.NotEq: lambda: a != b, ast.Is: lambda: a is b, ast.IsNot: lambda: a is not b,
                               ast.Lt: lambda: a < b, ast.LtE: lambda: a <= b, ast.Gt: lambda: a > b, ast.GtE: lambda: a >= b}[type(node.ops[0])]()
                        res = ('const', bool(res))
                    except Exception:  # noqa: BLE001
                        res = None
                outs.append(('val', res, s))
            return outs
        if t is ast.Await:
            return self.eval(node.value, st)
        if t is ast.Call:
            return self.eval_call(node, st)
        if t in (ast.Lambda, ast.GeneratorExp, ast.ListComp, ast.SetComp, ast.DictComp):
            r = self.dom.comp(self, node, st)
            if r is not None:
                return r
            self.skip(node)
            return [('val', None, st)]
        if t is ast.BinOp:
            outs = []
            for kd, vals, s in self.eval_seq([node.left, node.right], st):
                if kd != 'val':
                    outs.append((kd, vals, s))
                    continue
                res = None
                if all(isinstance(v, tuple) and v[0] == 'const' and isinstance(v[1], int) and not isinstance(v[1], bool) for v in vals):
                    if isinstance(node.op, ast.Add):
                        res = ('const', vals[0][1] + vals[1][1])
                    elif isinstance(node.op, ast.Sub):
                        res = ('const', vals[0][1] - vals[1][1])
                outs.append(('val', res, s))
            return outs
        # anything else: evaluate the sub-expressions for their effects, value unknown
        kids = [ch for ch in ast.iter_child_nodes(node) if isinstance(ch, ast.expr)]
        if t is ast.Subscript:
            kids = [node.value, node.slice]
        return [(kd, None if kd == 'val' else v, s) for kd, v, s in self.eval_seq(kids, st)]

    def eval_call(self, node, st):
        f = node.func
        outs = []
        if isinstance(f, ast.Attribute) and _self_attr(f) is None:
            heads = [(kd, v, s, None) for kd, v, s in self.eval(f.value, st)]        # a method of some receiver
        else:
            heads = [(kd, None, s, v) for kd, v, s in self.eval(f, st)]              # a plain name / `self.method`
        for kd, recv, s, fval in heads:
            if kd != 'val':
                outs.append((kd, recv if fval is None else fval, s))
                continue
            argn = [a.value if isinstance(a, ast.Starred) else a for a in node.args]
            kwn = [k.value for k in node.keywords]
            for kd2, vals, s2 in self.eval_seq(argn + kwn, s):
                if kd2 != 'val':
                    outs.append((kd2, vals, s2))
                    continue
                args = vals[:len(argn)]
                kwargs = {k.arg: v for k, v in zip(node.keywords, vals[len(argn):])}
                r = self.dom.call(self, node, fval, recv, args, kwargs, s2)
                if r is not None:
                    outs.extend(r)
                    continue
                if isinstance(fval, tuple) and fval[0] == 'fn':
                    r = self.inline(node, fval, args, kwargs, s2)
                    if r is not None:
                        outs.extend(r)
                        continue
                outs.append(('val', None, s2))
        return outs

    def inline(self, call, fval, args, kwargs, st):
        fn, is_method = fval[1], fval[2]
        starred = any(isinstance(a, ast.Starred) for a in call.args) or any(k.arg is None for k in call.keywords)
        if st.depth >= 4 or fn in st.stack or _is_generator(fn) or starred:
            for b in fn.body:
                self.skip(b)
            return None
        s = st.fork()
        caller_env = st.env
        env = dict(st.env)
        a = fn.args
        params = [p.arg for p in a.posonlyargs + a.args]
        if is_method and params:
            params = params[1:]
        defaults = dict(zip([p.arg for p in (a.posonlyargs + a.args)][len(a.posonlyargs + a.args) - len(a.defaults):], a.defaults))
        for p, d in zip(a.kwonlyargs, a.kw_defaults):
            if d is not None:
                defaults[p.arg] = d
        for i, p in enumerate(params + [p.arg for p in a.kwonlyargs]):
            if i < len(args) and i < len(params):
                env[p] = args[i]
            elif p in kwargs:
                env[p] = kwargs[p]
            elif p in defaults and isinstance(defaults[p], ast.Constant):
                env[p] = ('const', defaults[p].value)
            else:
                env[p] = _fresh()
        for p in (a.vararg, a.kwarg):
            if p is not None:
                env[p.arg] = None
        for n, d in _nested_defs(fn).items():
            env[n] = ('fn', d, False)
        s.env = env
        s.depth += 1
        s.stack = s.stack + (fn,)
        outs = []
        for sig, s2 in self.exec_block(fn.body, s):
            s2.env = dict(caller_env)
            s2.depth -= 1
            s2.stack = s2.stack[:-1]
            if sig == 'next':
                outs.append(('val', ('const', None), s2))
            elif isinstance(sig, tuple) and sig[0] == 'return':
                outs.append(('val', sig[1], s2))
            elif isinstance(sig, tuple) and sig[0] == 'exc':
                outs.append(('exc', sig[1], s2))
            elif sig == 'cut':
                outs.append(('cut', None, s2))
            else:
                raise _Unknown('break / continue leaves a function')
        return outs

    # ------------------------------------------------------------------ statements
    def assign(self, target, v, st):
        if isinstance(target, ast.Name):
            st.env[target.id] = _fresh() if v is None else v
        elif isinstance(target, (ast.Tuple, ast.List)):
            elts = target.elts
            if isinstance(v, tuple) and v[0] == 'tuple' and len(v[1]) == len(elts) and not any(isinstance(e, ast.Starred) for e in elts):
                for e, x in zip(elts, v[1]):
                    self.assign(e, x, st)
            else:
                for e in elts:
                    self.assign(e.value if isinstance(e, ast.Starred) else e, None, st)
        else:
            k = _self_attr(target)
            if k is not None:
                st.env[k] = v
                return
            if self.dom.store(self, target, v, st) is None:
                # effects of the target's sub-expressions
                for ch in ast.iter_child_nodes(target):
                    if isinstance(ch, ast.expr):
                        self.skip(ch)

    def exec_block(self, stmts, st):
        outs = [('next', st)]
        for stmt in stmts:
            nxt = []
            for sig, s in outs:
                if sig != 'next':
                    nxt.append((sig, s))
                else:
                    nxt.extend(self.exec_stmt(stmt, s))
            outs = nxt
            if not any(sig == 'next' for sig, _ in outs):
                break
        return outs

    def _after_eval(self, evs, cont):
        outs = []
        for kd, v, s in evs:
            if kd == 'val':
                outs.extend(cont(v, s))
            elif kd == 'exc':
                outs.append((('exc', v), s))
            else:
                outs.append(('cut', s))
        return outs

    def exec_stmt(self, node, st):
        t = type(node)
        if t is ast.Expr:
            return self._after_eval(self.eval(node.value, st), lambda v, s: [('next', s)])
        if t is ast.Assign:
            def cont(v, s):
                for tg in node.targets:
                    self.assign(tg, v, s)
                return [('next', s)]
            return self._after_eval(self.eval(node.value, st), cont)
        if t is ast.AnnAssign:
            if node.value is None:
                return [('next', st)]
            return self._after_eval(self.eval(node.value, st), lambda v, s: (self.assign(node.target, v, s), [('next', s)])[1])
        if t is ast.AugAssign:
            r = self.dom.aug(self, node, st)
            if r is not None:
                return r

            def cont(v, s):
                if isinstance(node.target, ast.Name):
                    old = s.env.get(node.target.id)
                    new = None
                    if (isinstance(old, tuple) and old[0] == 'const' and isinstance(v, tuple) and v[0] == 'const'
                            and isinstance(old[1], int) and isinstance(v[1], int)):
                        if isinstance(node.op, ast.Add):
                            new = ('const', old[1] + v[1])
                        elif isinstance(node.op, ast.Sub):
                            new = ('const', old[1] - v[1])
                    s.env[node.target.id] = _fresh() if new is None else new
                else:
                    self.skip(node.target)
                return [('next', s)]
            return self._after_eval(self.eval(node.value, st), cont)
        if t is ast.If:
            def cont(v, s):
                outs = []
                for b, s2 in self.decide(v, s):
                    outs.extend(self.exec_block(node.body if b else node.orelse, s2))
                return outs
            return self._after_eval(self.eval(node.test, st), cont)
        if t is ast.While:
            return self.exec_while(node, st)
        if t in (ast.For, ast.AsyncFor):
            def cont(v, s):
                tv = self.dom.bind_for(self, v, s)
                self.assign(node.target, tv, s)
                outs = []
                for sig, s2 in self.exec_block(node.body, s):
                    self.dom.loop_end(node, sig, s2)
                    if sig in ('next', 'continue'):
                        outs.extend(self.exec_block(node.orelse, s2))
                    elif sig == 'break':
                        outs.append(('next', s2))
                    else:
                        outs.append((sig, s2))
                return outs
            return self._after_eval(self.eval(node.iter, st), cont)
        if t is ast.Try or t.__name__ == 'TryStar':
            return self.exec_try(node, st)
        if t in (ast.With, ast.AsyncWith):
            return self.exec_with(node, 0, st)
        if t is ast.Return:
            if node.value is None:
                return [(('return', ('const', None)), st)]
            return self._after_eval(self.eval(node.value, st), lambda v, s: [(('return', v), s)])
        if t is ast.Break:
            return [('break', st)]
        if t is ast.Continue:
            return [('continue', st)]
        if t is ast.Raise:
            kind = 'other'
            if node.exc is not None:
                self.skip(node.exc)
                kind = (_call_name(node.exc) if isinstance(node.exc, ast.Call) else ast.unparse(node.exc).split('.')[-1]) or 'other'
            elif st.data.get('handling'):
                kind = st.data['handling']
            return [(('exc', kind), st)]
        if t is ast.Delete:
            outs = [('next', st)]
            for tg in node.targets:
                nxt = []
                for sig, s in outs:
                    if sig != 'next':
                        nxt.append((sig, s))
                        continue
                    r = self.dom.delete(self, tg, s)
                    if r is None:
                        self.skip(tg)
                        if isinstance(tg, ast.Name):
                            s.env.pop(tg.id, None)
                        r = [('next', s)]
                    nxt.extend(r)
                outs = nxt
            return outs
        if t in _FUNCS:
            st.env[node.name] = ('fn', node, False)
            return [('next', st)]
        if t in (ast.Pass, ast.Global, ast.Nonlocal, ast.Import, ast.ImportFrom, ast.ClassDef):
            return [('next', st)]
        if t is ast.Assert:
            self.skip(node)
            return [('next', st)]
        self.skip(node)
        return [('next', st)]

    def exec_while(self, node, st):
        interesting = self.reaches_site(node)
        results = []

        def iterate(s, count):
            if s.steps > self.dom.max_steps:
                results.append(('cut', s))
                return
            s.steps += 1
            for kd, v, s1 in self.eval(node.test, s):
                if kd == 'exc':
                    results.append((('exc', v), s1))
                    continue
                if kd == 'cut':
                    results.append(('cut', s1))
                    continue
                for b, s2 in self.decide(v, s1):
                    if not b:
                        results.extend(self.exec_block(node.orelse, s2))
                        continue
                    if not interesting and count >= 1:
                        # a loop the domain does not care about: at most one abstract iteration
                        results.extend(self.exec_block(node.orelse, s2))
                        continue
                    single = self.dom.single(node)
                    for sig, s3 in self.exec_block(node.body, s2):
                        self.dom.loop_end(node, sig, s3)
                        if sig in ('next', 'continue') and single:
                            results.extend(self.exec_block(node.orelse, s3))
                        elif sig in ('next', 'continue'):
                            iterate(s3, count + 1)
                        elif sig == 'break':
                            results.append(('next', s3))
                        else:
                            results.append((sig, s3))
        iterate(st, 0)
        return results

    def exec_try(self, node, st):
        outs = []
        for sig, s in self.exec_block(node.body, st):
            if isinstance(sig, tuple) and sig[0] == 'exc':
                handled = False
                for h in node.handlers:
                    if self.dom.matches(self, h.type, sig[1], s):
                        handled = True
                        if h.name:
                            s.env[h.name] = None
                        prev = s.data.get('handling')
                        s.data['handling'] = sig[1]
                        for sig2, s2 in self.exec_block(h.body, s):
                            s2.data['handling'] = prev
                            outs.append((sig2, s2))
                        break
                if not handled:
                    outs.append((sig, s))
            elif sig == 'next':
                outs.extend(self.exec_block(node.orelse, s))
            else:
                outs.append((sig, s))
        if not node.finalbody:
            return outs
        final = []
        for sig, s in outs:
            if sig == 'cut':
                final.append((sig, s))
                continue
            for sig2, s2 in self.exec_block(node.finalbody, s):
                final.append((sig if sig2 == 'next' else sig2, s2))
        return final

    def exec_with(self, node, i, st):
        if i == len(node.items):
            return self.exec_block(node.body, st)
        item = node.items[i]

        def cont(v, s):
            tok = self.dom.enter(self, v, s)
            if item.optional_vars is not None:
                self.assign(item.optional_vars, v, s)
            if tok is None:
                return self.exec_with(node, i + 1, s)
            s.held = s.held + (tok,)
            outs = []
            for sig, s2 in self.exec_with(node, i + 1, s):
                if sig != 'cut':
                    if not s2.held or s2.held[-1] != tok:
                        raise _Unknown('unbalanced with')
                    s2.held = s2.held[:-1]
                outs.append((sig, s2))
            return outs
        return self._after_eval(self.eval(item.context_expr, st), cont)


# ---------------------------------------------------------------------------------------------------------------- environments
def _class_of(tree, name):
    for st in tree.body:
        if isinstance(st, ast.ClassDef) and st.name == name:
            return st
    return None


def _method(cls, name):
    for st in cls.body if cls is not None else []:
        if isinstance(st, _FUNCS) and st.name == name:
            return st
    return None


def _params(fn):
    a = fn.args
    return [p.arg for p in a.posonlyargs + a.args + a.kwonlyargs] + [p.arg for p in (a.vararg, a.kwarg) if p is not None]


def _seed(tree, cls, chain):
    """→ (funcs_env, env, creators): what a function nested in `chain` (method first) sees of the enclosing scopes.
    creators: name → the expression that created the object bound to that name (names bound exactly once)."""
    funcs, env, creators = {}, {}, {}
    for st in tree.body:
        if isinstance(st, _FUNCS):
            funcs[st.name] = ('fn', st, False)
        elif isinstance(st, ast.Assign) and len(st.targets) == 1 and isinstance(st.targets[0], ast.Name) and isinstance(st.value, ast.Constant):
            env[st.targets[0].id] = ('const', st.value.value)
    for st in cls.body if cls is not None else []:
        if isinstance(st, _FUNCS):
            funcs['self.' + st.name] = ('fn', st, True)
        elif isinstance(st, ast.Assign) and len(st.targets) == 1 and isinstance(st.targets[0], ast.Name) and isinstance(st.value, ast.Constant):
            env['self.' + st.targets[0].id] = ('const', st.value.value)
    init = _method(cls, '__init__')
    if init is not None:
        seen = {}
        for n in _body_walk(init):
            if isinstance(n, ast.Assign):
                for t in n.targets:
                    k = _self_attr(t)
                    if k:
                        seen.setdefault(k, []).append(n.value)
        for k, vals in seen.items():
            if len(vals) == 1 and _classify(vals[0]):
                env[k] = ('obj', _classify(vals[0]), k)
                creators[k] = vals[0]
    for fn in chain:
        for p in _params(fn):
            if p != 'self':
                env[p] = _fresh()
        bound = _bound_names(fn)
        for name, vals in bound.items():
            env.pop(name, None)
            creators.pop(name, None)
            if len(vals) == 1 and vals[0] is not None:
                kind = _classify(vals[0])
                if kind:
                    env[name] = ('obj', kind, name)
                    creators[name] = vals[0]
                elif isinstance(vals[0], ast.Constant):
                    env[name] = ('const', vals[0].value)
        for name, vals in bound.items():            # aliases of the above
            if len(vals) == 1 and isinstance(vals[0], ast.Name) and vals[0].id in env and name not in env and len(bound.get(vals[0].id, [0])) == 1:
                env[name] = env[vals[0].id]
            elif len(vals) == 1 and vals[0] is not None and _self_attr(vals[0]) in env and name not in env:
                env[name] = env[_self_attr(vals[0])]
        for n, d in _nested_defs(fn).items():
            env[n] = ('fn', d, False)
            funcs[n] = ('fn', d, False)          # (static resolution of helper calls: `reaches`, `sites`)
    return funcs, env, creators


def _bind_own_params(fn, env, defaults_ok):
    """parameters of the function under analysis: constants for literal defaults (when it is called without arguments), else fresh"""
    a = fn.args
    pos = a.posonlyargs + a.args
    dflt = dict(zip([p.arg for p in pos][len(pos) - len(a.defaults):], a.defaults))
    for p, d in zip(a.kwonlyargs, a.kw_defaults):
        if d is not None:
            dflt[p.arg] = d
    for p in _params(fn):
        d = dflt.get(p)
        env[p] = ('const', d.value) if (defaults_ok and isinstance(d, ast.Constant)) else _fresh()
    for n, d in _nested_defs(fn).items():
        env[n] = ('fn', d, False)


def _run(dom, funcs, env, fn, defaults_ok=False):
    """execute the body of `fn` → [(signal, state)]"""
    funcs = dict(funcs)
    for n, d in _nested_defs(fn).items():
        funcs[n] = ('fn', d, False)
    m = _Machine(dom, funcs)
    st = _St()
    st.env = dict(env)
    _bind_own_params(fn, st.env, defaults_ok)
    st.stack = (fn,)
    return m, m.exec_block(fn.body, st)


# ---------------------------------------------------------------------------------------------------------------- producer
def _is_number(v):
    return isinstance(v, tuple) and v[0] == 'const' and isinstance(v[1], (int, float)) and not isinstance(v[1], bool) and v[1] >= 0


class _ProducerDom(_Dom):
    """events per chunk: A+ / A- (abort flag tested: set / clear), P+ / PF (put succeeded / queue.Full), END / EXIT (iteration over /
    per-chunk loop left by break)"""
    site_calls = ('is_set', 'wait', 'put', 'put_nowait')
    danger_calls = ('put', 'put_nowait')
    max_choices = 6

    def __init__(self, abort_names, loop):
        self.abort = set(abort_names)
        self.loop = loop
        self.queues = set()
        self.kinds = set()

    @staticmethod
    def is_put(node):
        return isinstance(node, ast.Call) and isinstance(node.func, ast.Attribute) and node.func.attr in ('put', 'put_nowait')

    def single(self, node):
        return node is self.loop

    def loop_end(self, node, sig, st):
        if node is self.loop and not any(e[0] in ('END', 'EXIT') for e in st.trace):
            if sig in ('next', 'continue'):
                st.ev('END')
            elif sig == 'break':
                st.ev('EXIT')

    def _choice(self, st):
        st.choices += 1
        return st.choices <= self.max_choices

    def prim(self, m, node, st):
        if not (isinstance(node, ast.Call) and isinstance(node.func, ast.Attribute)):
            return None
        attr = node.func.attr
        if attr not in self.site_calls:
            return None
        recv = m.peek(node.func.value, st)
        if not (isinstance(recv, tuple) and recv[0] == 'obj'):
            return None             # not an identified object: no event (an unidentified put / test never counts in favour)
        if recv[1] == 'event' and recv[2] in self.abort and (attr == 'is_set' or (attr == 'wait' and (node.args or node.keywords))):
            outs = []
            for kd, vals, s in m.eval_seq(list(node.args) + [k.value for k in node.keywords], st):
                if kd != 'val':
                    outs.append((kd, vals, s))
                    continue
                if not self._choice(s):
                    outs.append(('cut', None, s))
                    continue
                s2 = s.fork()
                outs.append(('val', ('const', True), s.ev('A+')))
                outs.append(('val', ('const', False), s2.ev('A-')))
                m.tick()
            return outs
        if recv[1] == 'queue' and attr in ('put', 'put_nowait'):
            outs = []
            argn = list(node.args)
            for kd, vals, s in m.eval_seq(argn + [k.value for k in node.keywords], st):
                if kd != 'val':
                    outs.append((kd, vals, s))
                    continue
                kw = {k.arg: v for k, v in zip(node.keywords, vals[len(argn):])}
                if any(k.arg is None for k in node.keywords) or any(isinstance(a, ast.Starred) for a in argn):
                    raise _Unknown('put with * / ** arguments')
                bounded = attr == 'put_nowait'
                if attr == 'put':
                    block = kw.get('block', vals[1] if len(argn) > 1 else ('const', True))
                    timeout = kw.get('timeout', vals[2] if len(argn) > 2 else ('const', None))
                    if isinstance(block, tuple) and block[0] == 'const' and block[1] is False:
                        bounded = True
                    elif isinstance(block, tuple) and block[0] == 'const' and block[1] is True and _is_number(timeout):
                        bounded = True
                self.queues.add(recv[2])
                self.kinds.add(bounded)
                if not self._choice(s):
                    outs.append(('cut', None, s))
                    continue
                if bounded:
                    s2 = s.fork()
                    outs.append(('exc', 'Full', s2.ev('PF')))
                    m.tick()
                outs.append(('val', ('const', None), s.ev('P+')))
            return outs
        return None


def _per_item_loop(m, fn, pred):
    """the outermost loop of `fn` that contains the (only) statement reaching `pred`; None when there is no such loop"""
    stmts = fn.body
    while True:
        hits = [st for st in stmts if not isinstance(st, _FUNCS) and m.reaches(st, pred, 'put')]
        if len(hits) != 1:
            return None
        st = hits[0]
        if isinstance(st, (ast.For, ast.AsyncFor, ast.While)):
            return st if any(m.reaches(b, pred, 'put') for b in st.body) else None
        if isinstance(st, (ast.With, ast.AsyncWith)):
            stmts = st.body
        elif isinstance(st, ast.Try) and any(m.reaches(b, pred, 'put') for b in st.body):
            stmts = st.body
        else:
            return None


def _producer_facts(funcs, env, prod, abort_names, notes):
    """→ (stops, rechecks, queue names the producer puts into)"""
    funcs = dict(funcs)
    for n, d in _nested_defs(prod).items():
        funcs[n] = ('fn', d, False)
    probe = _Machine(_ProducerDom(abort_names, None), funcs)
    puts = probe.sites(prod, _ProducerDom.is_put)
    if len(puts) != 1:
        notes['sched.producer'] = f'{len(puts)} put sites in the chunk producer (1 expected)'
        return False, False, set()
    loop = _per_item_loop(probe, prod, _ProducerDom.is_put)
    if loop is None:
        notes['sched.producer'] = 'the put is not inside a per-chunk loop of the producer'
        return False, False, set()
    # (the interpreter runs a `for` body once: a second `for` between the per-chunk loop and the put would hide repeated attempts)
    if probe.sites(prod, lambda n: isinstance(n, (ast.For, ast.AsyncFor)) and n is not loop
                   and any(probe.reaches(b, _ProducerDom.is_put, 'put') for b in n.body)):
        raise _Unknown('the put is inside a second for-loop')
    dom = _ProducerDom(abort_names, loop)
    m, outs = _run(dom, funcs, env, prod, defaults_ok=True)
    stops = rechecks = True
    saw_put = saw_full = False
    for sig, st in outs:
        evs = [e[0] for e in st.trace]
        term = None
        for i, e in enumerate(evs):
            if e in ('END', 'EXIT'):
                term, evs = e, evs[:i]
                break
        if term is None:
            term = 'CUT' if sig == 'cut' else ('RET' if (sig == 'next' or (isinstance(sig, tuple) and sig[0] == 'return')) else 'EXC')
        fresh = False
        for i, e in enumerate(evs):
            last = i == len(evs) - 1
            if e == 'A-':
                fresh = True
            elif e == 'A+':
                # the flag is set: leave the producer, nothing else happens to a chunk
                if not (last and term in ('RET', 'EXIT')):
                    stops = False
            elif e in ('P+', 'PF'):
                saw_put = True
                if not fresh:
                    stops = False
                fresh = False
                if e == 'PF':
                    saw_full = True
                    if last and term != 'CUT':
                        rechecks = False            # the chunk is dropped / the producer dies on a full queue
                    if not last and evs[i + 1] not in ('A+', 'A-'):
                        rechecks = False
                else:
                    rest = evs[i + 1:]
                    if any(x in ('P+', 'PF') for x in rest):
                        rechecks = False            # queued twice
                    if term in ('RET', 'EXIT', 'EXC') and 'A+' not in rest:
                        rechecks = False            # stops producing after a successful put
        if term == 'END' and (not evs or 'P+' not in evs):
            rechecks = False                         # an iteration ends without having queued its chunk
    if not saw_put:
        stops = False
    if dom.kinds != {True} or not saw_full:
        rechecks = False
    return stops, stops and rechecks, dom.queues


# ---------------------------------------------------------------------------------------------------------------- slots (static)
def _linear(node, names, depth=0):
    """integer expression → (a, b) meaning a·concurrent + b; `names`: name / 'self.x' → (a, b).  None when not linear."""
    if depth > 8:
        return None
    if isinstance(node, ast.Constant) and isinstance(node.value, int) and not isinstance(node.value, bool):
        return (0, node.value)
    if isinstance(node, ast.Name):
        return names.get(node.id)
    k = _self_attr(node)
    if k is not None:
        return names.get(k)
    if isinstance(node, ast.BinOp):
        l, r = _linear(node.left, names, depth + 1), _linear(node.right, names, depth + 1)
        if l is None or r is None:
            return None
        if isinstance(node.op, ast.Add):
            return (l[0] + r[0], l[1] + r[1])
        if isinstance(node.op, ast.Sub):
            return (l[0] - r[0], l[1] - r[1])
        if isinstance(node.op, ast.Mult) and (l[0] == 0 or r[0] == 0):
            c, x = (l[1], r) if l[0] == 0 else (r[1], l)
            return (c * x[0], c * x[1])
    return None


def _linear_names(tree, cls, fn):
    """linear forms of the names visible in `fn` (a method of `cls`): module / class integer constants, `concurrent`, and what is
    assigned exactly once from such an expression (locals of `fn`, `self.x` in `__init__`)"""
    names = {}
    for st in tree.body:
        if isinstance(st, ast.Assign) and len(st.targets) == 1 and isinstance(st.targets[0], ast.Name):
            v = _linear(st.value, {})
            if v is not None:
                names[st.targets[0].id] = v
    for st in cls.body:
        if isinstance(st, ast.Assign) and len(st.targets) == 1 and isinstance(st.targets[0], ast.Name):
            v = _linear(st.value, names)
            if v is not None:
                names['self.' + st.targets[0].id] = v
                names[cls.name + '.' + st.targets[0].id] = v
    if 'concurrent' in _params(fn):
        names['concurrent'] = (1, 0)
    init = _method(cls, '__init__')
    for f in ([init] if init is not None and init is not fn else []) + [fn]:
        if f is init and 'concurrent' in _params(init):
            names.setdefault('concurrent', (1, 0))
        for _ in range(3):
            count = {}
            for n in _body_walk(f):
                for t in _assign_targets(n):
                    key = t.id if isinstance(t, ast.Name) else _self_attr(t)
                    if key:
                        count[key] = count.get(key, 0) + 1
            for n in _body_walk(f):
                if isinstance(n, ast.Assign) and len(n.targets) == 1:
                    t = n.targets[0]
                    key = t.id if isinstance(t, ast.Name) else _self_attr(t)
                    if key and count.get(key) == 1 and key != 'concurrent':
                        if f is init and f is not fn and not key.startswith('self.'):
                            continue
                        v = _linear(n.value, names)
                        if v is not None:
                            names[key] = v
    if 'concurrent' not in _params(fn):
        names.pop('concurrent', None)
    return names


def _slot_fill(tree, cls, notes):
    """→ (queue attribute 'self.x', base, (a, b) of the number of slots) from the loop that fills the slot queue; None if not found"""
    init = _method(cls, '__init__')
    if init is None:
        return None
    fns = [init]
    for n in _body_walk(init):
        if isinstance(n, ast.Call) and _self_attr(n.func) and not n.args and not n.keywords:
            h = _method(cls, n.func.attr)
            if h is not None and h not in fns:
                fns.append(h)
    found = []
    for fn in fns:
        names = _linear_names(tree, cls, fn)
        for n in _body_walk(fn):
            if not (isinstance(n, ast.For) and isinstance(n.target, ast.Name) and _call_name(n.iter) == 'range' and isinstance(n.iter.func, ast.Name)
                    and 1 <= len(n.iter.args) <= 2 and not n.iter.keywords and not n.orelse):
                continue
            puts = [c for st in n.body for c in _walk_local(st) if isinstance(c, ast.Call) and isinstance(c.func, ast.Attribute)
                    and c.func.attr in ('put_nowait', 'put') and _self_attr(c.func.value)]
            if len(puts) != 1 or len(puts[0].args) != 1 or puts[0].keywords:
                continue
            # the put is a statement of the loop body itself (not under a condition)
            if not any(isinstance(st, ast.Expr) and (st.value is puts[0] or (isinstance(st.value, ast.Await) and st.value.value is puts[0])) for st in n.body):
                continue
            lo = (0, 0) if len(n.iter.args) == 1 else _linear(n.iter.args[0], names)
            hi = _linear(n.iter.args[-1], names)
            off = _linear(puts[0].args[0], dict(names, **{n.target.id: (0, 0)}))
            one = _linear(puts[0].args[0], dict(names, **{n.target.id: (0, 1)}))
            if None in (lo, hi, off, one) or (one[0] - off[0], one[1] - off[1]) != (0, 1):
                continue
            found.append((_self_attr(puts[0].func.value), (lo[0] + off[0], lo[1] + off[1]), (hi[0] - lo[0], hi[1] - lo[1])))
    if len(found) != 1:
        notes['sched.slot_fill'] = f'{len(found)} loops that fill a queue attribute with a range (1 expected)'
        return None
    q, base, count = found[0]
    if base[0] != 0 or base[1] < 0:
        notes['sched.slot_fill'] = 'the first slot number is not a constant'
        return None
    return q, base[1], count


def _carries(node, get_call, slotvars):
    """does the value of `node` equal the value obtained by `get_call` (through await / future.result / run_coroutine_threadsafe /
    wait_for / a local that carries it)?"""
    if node is get_call:
        return True
    if isinstance(node, ast.Name):
        return node.id in slotvars
    if isinstance(node, ast.Await):
        return _carries(node.value, get_call, slotvars)
    if isinstance(node, ast.NamedExpr):
        return _carries(node.value, get_call, slotvars)
    if isinstance(node, ast.Call):
        nm = _call_name(node)
        if nm == 'result' and isinstance(node.func, ast.Attribute):
            return _carries(node.func.value, get_call, slotvars)
        if nm in ('run_coroutine_threadsafe', 'wait_for', 'ensure_future', 'create_task', 'shield') and node.args:
            return _carries(node.args[0], get_call, slotvars)
    return False


def _slot_cm(fn, q):
    """one request to the slot queue `q` ('self.x'); try: yield <that value>; finally: <give that value back to q>"""
    if fn is None or not _is_generator(fn):
        return False
    tries = [st for st in fn.body if isinstance(st, ast.Try)]
    qrefs = [n for n in _body_walk(fn) if _self_attr(n) == q]
    gets = [n for n in _body_walk(fn) if isinstance(n, ast.Call) and isinstance(n.func, ast.Attribute) and n.func.attr in ('get', 'get_nowait')
            and _self_attr(n.func.value) == q]
    yields = [n for n in _body_walk(fn) if isinstance(n, (ast.Yield, ast.YieldFrom))]
    if len(gets) != 1 or len(qrefs) != 2 or len(yields) != 1 or not isinstance(yields[0], ast.Yield) or not tries:
        return False
    t = None
    for cand in tries:
        if any(isinstance(st, ast.Expr) and st.value is yields[0] for st in cand.body):
            t = cand
    if t is None or not t.finalbody:
        return False
    pre = fn.body[:fn.body.index(t)]
    if not any(n is gets[0] for st in pre for n in _walk_local(st)):
        return False
    if any(isinstance(n, (ast.Return,)) for st in pre for n in _walk_local(st)):
        return False
    slotvars = set()
    for _ in range(4):
        for st in pre:
            for n in _walk_local(st):
                if isinstance(n, (ast.Assign, ast.NamedExpr, ast.AnnAssign)) and n.value is not None and _carries(n.value, gets[0], slotvars):
                    for tg in _assign_targets(n):
                        if isinstance(tg, ast.Name):
                            slotvars.add(tg.id)
    # a slot variable must not be rebound to something else
    for n in _body_walk(fn):
        for tg in _assign_targets(n):
            if isinstance(tg, ast.Name) and tg.id in slotvars and not (n.value is not None and _carries(n.value, gets[0], slotvars)):
                return False
        if isinstance(n, (ast.For, ast.AsyncFor)) and any(isinstance(x, ast.Name) and x.id in slotvars for x in ast.walk(n.target)):
            return False
    if not (isinstance(yields[0].value, ast.Name) and yields[0].value.id in slotvars):
        return False

    def gives_back(call):
        nm = _call_name(call)
        if nm in ('put_nowait', 'put') and isinstance(call.func, ast.Attribute) and _self_attr(call.func.value) == q:
            return len(call.args) == 1 and not call.keywords and isinstance(call.args[0], ast.Name) and call.args[0].id in slotvars
        if nm in ('call_soon_threadsafe', 'call_soon') and len(call.args) == 2:
            f, a = call.args
            return (isinstance(f, ast.Attribute) and f.attr == 'put_nowait' and _self_attr(f.value) == q
                    and isinstance(a, ast.Name) and a.id in slotvars)
        if nm in ('run_coroutine_threadsafe', 'result') and (call.args or isinstance(call.func, ast.Attribute)):
            inner = call.args[0] if nm == 'run_coroutine_threadsafe' else call.func.value
            return isinstance(inner, ast.Call) and gives_back(inner)
        return False
    backs = []
    for st in t.finalbody:
        v = st.value if isinstance(st, ast.Expr) else None
        if isinstance(v, ast.Await):
            v = v.value
        if isinstance(v, ast.Call) and gives_back(v):
            backs.append(st)
    # the second reference to the queue is the give-back, and it is an unconditional statement of the `finally` block
    return len(backs) == 1 and any(n is qrefs[0] or n is qrefs[1] for n in ast.walk(backs[0]) if _self_attr(n) == q) \
        and not any(n is gets[0] for n in ast.walk(backs[0]))


_TRANSFER_OPS = ('exists', 'download', 'upload', 'delete', 'upload_stream', 'download_stream')


def _all_functions(cls):
    """every function defined in the class, at any depth → [(function, enclosing function or None)]"""
    out = []

    def rec(fn, parent):
        out.append((fn, parent))
        for d in _body_walk_defs(fn):
            rec(d, fn)
    for st in cls.body:
        if isinstance(st, _FUNCS):
            rec(st, None)
    return out


def _transfers_under_slot(cls, cms, notes):
    """every `self.backend.<transfer op>` in the class is referenced inside `with self.<slot manager>(…)`, or kept in a local that is
    used only there, or sits in a function whose every call is there"""
    funcs = _all_functions(cls)

    def is_slot_with(node):
        if not isinstance(node, (ast.With, ast.AsyncWith)):
            return False
        for i in node.items:
            c = i.context_expr
            if isinstance(c, ast.Call) and _self_attr(c.func) and c.func.attr in cms:
                return True
        return False

    def inside_map(fn):
        """id(node) → is the node lexically inside a slot `with` of fn (body of the with only)"""
        m = {}

        def rec(node, ins):
            m[id(node)] = ins
            if isinstance(node, _FUNCS + (ast.Lambda, ast.ClassDef)) and node is not fn:
                return
            if is_slot_with(node):
                for i in node.items:
                    rec(i, ins)
                for st in node.body:
                    rec(st, True)
                return
            for ch in ast.iter_child_nodes(node):
                rec(ch, ins)
        rec(fn, False)
        return m

    def backend_aliases(fn):
        b = _bound_names(fn)
        return {n for n, vals in b.items() if len(vals) == 1 and vals[0] is not None and _self_attr(vals[0]) == 'self.backend'}

    memo = {}

    def always_under_slot(fn, depth=0):
        """every call of `fn` (self.fn(…) for methods, fn(…) for nested functions) is inside a slot `with` (≥ 1 call)"""
        if id(fn) in memo:
            return memo[id(fn)]
        memo[id(fn)] = False
        if depth > 3:
            return False
        parent = [p for f, p in funcs if f is fn][0]
        calls = []
        for g, _ in funcs:
            im = None
            for n in _body_walk(g):
                hit = False
                if parent is None:
                    hit = isinstance(n, ast.Attribute) and _self_attr(n) == 'self.' + fn.name
                else:
                    hit = isinstance(n, ast.Name) and n.id == fn.name and isinstance(n.ctx, ast.Load) and (g is parent or g is fn or
                                                                                                     any(f is g and p is parent for f, p in funcs))
                if hit:
                    im = im or inside_map(g)
                    calls.append(im.get(id(n), False) or (g is not fn and always_under_slot(g, depth + 1)))
        r = bool(calls) and all(calls)
        memo[id(fn)] = r
        return r

    def passed_into_slot(fn, node):
        """`self.helper(…, self.backend.op, …)`: the helper uses that parameter only inside its slot `with`"""
        for c in _body_walk(fn):
            if not (isinstance(c, ast.Call) and _self_attr(c.func) and any(a is node for a in c.args)):
                continue
            h = [f for f, p in funcs if p is None and f.name == c.func.attr]
            if not h or any(isinstance(a, ast.Starred) for a in c.args[:[i for i, a in enumerate(c.args) if a is node][0] + 1]):
                return False
            h = h[0]
            pos = [p.arg for p in h.args.posonlyargs + h.args.args][1:]
            i = [i for i, a in enumerate(c.args) if a is node][0]
            if i >= len(pos):
                return False
            hm = inside_map(h)
            uses = [x for x in _body_walk(h) if isinstance(x, ast.Name) and x.id == pos[i]]
            return bool(uses) and all(isinstance(x.ctx, ast.Load) and hm.get(id(x), False) for x in uses)
        return False

    seen_ops = set()
    ok = True
    for fn, _ in funcs:
        al = backend_aliases(fn)
        im = None
        for n in _body_walk(fn):
            if not (isinstance(n, ast.Attribute) and n.attr in _TRANSFER_OPS and isinstance(n.ctx, ast.Load)):
                continue
            if not (_self_attr(n.value) == 'self.backend' or (isinstance(n.value, ast.Name) and n.value.id in al)):
                continue
            seen_ops.add(n.attr)
            im = im or inside_map(fn)
            if im.get(id(n), False):
                continue
            # hoisted into a local: every use of that local must be inside the slot
            holder = [x for x in _body_walk(fn) if isinstance(x, ast.Assign) and x.value is n and len(x.targets) == 1 and isinstance(x.targets[0], ast.Name)]
            if holder:
                v = holder[0].targets[0].id
                uses = [x for x in _body_walk(fn) if isinstance(x, ast.Name) and x.id == v and isinstance(x.ctx, ast.Load)]
                binds = _bound_names(fn).get(v, [])
                if uses and len(binds) == 1 and all(im.get(id(x), False) for x in uses):
                    continue
            if always_under_slot(fn):
                continue
            if passed_into_slot(fn, n):
                continue
            ok = False
            notes[f'sched.under_slot.{fn.name}'] = f'self.backend.{n.attr} is used outside `with <slot manager>`'
    for op in _TRANSFER_OPS:
        if op not in seen_ops:
            ok = False
            notes[f'sched.under_slot.{op}'] = f'no reference to self.backend.{op} found'
    return ok


# ---------------------------------------------------------------------------------------------------------------- restore: tables
_ABSENT = ('absent',)


def _is_logging_call(node):
    return _root_name(node.func) in _LOGGING_ROOTS


class _TableDom(_Dom):
    """shared by the writer and the loader analyses: `with <lock>` → held, dict objects of the enclosing scope"""

    def __init__(self):
        self.epoch = itertools.count(1)

    def enter(self, m, value, st):
        if isinstance(value, tuple) and value[0] == 'obj' and value[1] == 'lock':
            return ('G', value[2], next(self.epoch))
        if isinstance(value, tuple) and value[0] == 'lock':
            return ('F', value)
        return None

    @staticmethod
    def glocks(st):
        return tuple(h for h in st.held if h[0] == 'G')

    @staticmethod
    def dict_obj(v):
        return isinstance(v, tuple) and v[0] == 'obj' and v[1] == 'dict'


class _FlockDom(_TableDom):
    """The writer, run symbolically for ONE key from a given start (`absent`, or `present` with a lock and a count c ≥ 1).
    values: ('lock', 'old' | n), ('cnt', k) = c + k, ('const', n); store: (table, key) → value | _ABSENT.
    events: ('acc', table, held), ('write', held, lock table entry, count entry)"""
    site_calls = ('get', 'setdefault', 'pop', 'Lock', 'RLock', 'acquire', 'release')
    max_paths = 600

    def __init__(self, lock_table, count_table, present, defaults, names):
        super().__init__()
        self.lt, self.rc, self.present, self.defaults = lock_table, count_table, present, defaults
        self.names = names            # names (with their local aliases) of the tables and of the locks of the enclosing scope
        self.key = None

    def is_site(self, node):
        return (isinstance(node, ast.Name) and node.id in self.names) or _call_name(node) in ('Lock', 'RLock')

    # -------- the store
    def _key(self, k):
        if k is None:
            raise _Unknown('table key')
        if self.key is None:
            self.key = k
        if k != self.key:
            raise _Unknown('a second key of the lock tables')
        return k

    def _tables(self):
        return (self.lt, self.rc)

    def read(self, st, tab, k):
        self._key(k)
        store = st.data.get('store', {})
        if tab in store:
            return store[tab]
        if not self.present:
            return _ABSENT
        return ('lock', 'old') if tab == self.lt else ('cnt', 0)

    def write(self, st, tab, k, v):
        self._key(k)
        store = dict(st.data.get('store', {}))
        store[tab] = v
        st.data['store'] = store
        st.ev('acc', tab, st.held)

    def load(self, st, tab, k):
        """value of table[k] or None when it raises KeyError"""
        v = self.read(st, tab, k)
        st.ev('acc', tab, st.held)
        if v is _ABSENT:
            if self.defaults.get(tab) == 'int':
                self.write(st, tab, k, ('const', 0))
                return ('const', 0)
            return None
        return v

    def _tab(self, m, node, st):
        v = m.peek(node, st)
        if self.dict_obj(v):
            if v[2] not in self._tables():
                return None
            return v[2]
        return None

    # -------- primitives
    def prim(self, m, node, st):
        t = type(node)
        if t is ast.Subscript and isinstance(node.ctx, ast.Load):
            tab = self._tab(m, node.value, st)
            if tab is None:
                return None
            outs = []
            for kd, k, s in m.eval(node.slice, st):
                if kd != 'val':
                    outs.append((kd, k, s))
                    continue
                v = self.load(s, tab, k)
                outs.append(('exc', 'KeyError', s) if v is None else ('val', v, s))
            return outs
        if t is ast.Compare and len(node.ops) == 1:
            op = node.ops[0]
            if isinstance(op, (ast.In, ast.NotIn)):
                tab = self._tab(m, node.comparators[0], st)
                if tab is None:
                    return None
                outs = []
                for kd, k, s in m.eval(node.left, st):
                    if kd != 'val':
                        outs.append((kd, k, s))
                        continue
                    present = self.read(s, tab, k) is not _ABSENT
                    s.ev('acc', tab, s.held)
                    outs.append(('val', ('const', present == isinstance(op, ast.In)), s))
                return outs
            outs = []
            for kd, vals, s in m.eval_seq([node.left, node.comparators[0]], st):
                if kd != 'val':
                    outs.append((kd, vals, s))
                    continue
                outs.append(('val', self.compare(op, vals[0], vals[1]), s))
            return outs
        if t is ast.BinOp and isinstance(node.op, (ast.Add, ast.Sub)):
            outs = []
            for kd, vals, s in m.eval_seq([node.left, node.right], st):
                if kd != 'val':
                    outs.append((kd, vals, s))
                    continue
                outs.append(('val', self.arith(node.op, vals[0], vals[1]), s))
            return outs
        if t is ast.Call:
            nm = _call_name(node)
            if nm in ('Lock', 'RLock') and not node.args and not node.keywords:
                return [('val', ('lock', next(_sym_counter)), st)]
            if isinstance(node.func, ast.Attribute) and nm in ('get', 'setdefault', 'pop'):
                tab = self._tab(m, node.func.value, st)
                if tab is None:
                    return None
                if not (1 <= len(node.args) <= 2) or node.keywords:
                    raise _Unknown('table call')
                outs = []
                for kd, vals, s in m.eval_seq(node.args, st):
                    if kd != 'val':
                        outs.append((kd, vals, s))
                        continue
                    k = vals[0]
                    dflt = vals[1] if len(vals) == 2 else ('const', None)
                    cur = self.read(s, tab, k)
                    s.ev('acc', tab, s.held)
                    if nm == 'get':
                        outs.append(('val', dflt if cur is _ABSENT else cur, s))
                    elif nm == 'setdefault':
                        if cur is _ABSENT:
                            self.write(s, tab, k, dflt)
                            cur = dflt
                        outs.append(('val', cur, s))
                    else:
                        if cur is _ABSENT and len(vals) == 1:
                            outs.append(('exc', 'KeyError', s))
                        else:
                            self.write(s, tab, k, _ABSENT)
                            outs.append(('val', dflt if cur is _ABSENT else cur, s))
                return outs
            if isinstance(node.func, ast.Attribute) and nm in ('acquire', 'release'):
                v = m.peek(node.func.value, st)
                if isinstance(v, tuple) and (v[0] == 'lock' or (v[0] == 'obj' and v[1] == 'lock')):
                    raise _Unknown('explicit acquire / release')
        return None

    def compare(self, op, a, b):
        none = ('const', None)
        if isinstance(op, (ast.Is, ast.IsNot, ast.Eq, ast.NotEq)) and (a == none or b == none):
            other = b if a == none else a
            if other is None or (isinstance(other, tuple) and other[0] == 'sym'):
                raise _Unknown('comparison with None')
            return ('const', (other == none) == isinstance(op, (ast.Is, ast.Eq)))
        if isinstance(a, tuple) and isinstance(b, tuple) and a[0] == 'const' and b[0] == 'cnt':
            flip = {ast.Lt: ast.Gt, ast.Gt: ast.Lt, ast.LtE: ast.GtE, ast.GtE: ast.LtE}
            op = flip.get(type(op), type(op))()
            a, b = b, a
        if isinstance(a, tuple) and isinstance(b, tuple) and a[0] == 'cnt' and b[0] == 'const' and isinstance(b[1], int):
            lb, n = 1 + a[1], b[1]          # c + k ≥ 1 + k
            res = {ast.Eq: False if n < lb else None, ast.NotEq: True if n < lb else None, ast.Gt: True if lb > n else None,
                   ast.GtE: True if lb >= n else None, ast.Lt: False if lb >= n else None, ast.LtE: False if lb > n else None}.get(type(op))
            if res is None:
                raise _Unknown('comparison of the count')
            return ('const', res)
        if isinstance(a, tuple) and isinstance(b, tuple) and a[0] == 'const' and b[0] == 'const':
            try:
                return ('const', bool({ast.Eq: lambda: a[1] == b[1], ast.NotEq: lambda: a[1] != b[1], ast.Lt: lambda: a[1] < b[1],
                                       ast.LtE: lambda: a[1] <= b[1], ast.Gt: lambda: a[1] > b[1], ast.GtE: lambda: a[1] >= b[1],
                                       ast.Is: lambda: a[1] is b[1], ast.IsNot: lambda: a[1] is not b[1]}[type(op)]()))
            except Exception:  # noqa: BLE001
                return None
        if any(isinstance(x, tuple) and x[0] in ('cnt', 'lock') for x in (a, b)):
            raise _Unknown('comparison')
        return None

    def arith(self, op, a, b):
        sign = 1 if isinstance(op, ast.Add) else -1
        ints = lambda x: isinstance(x, tuple) and x[0] == 'const' and isinstance(x[1], int) and not isinstance(x[1], bool)   # noqa: E731
        if ints(a) and ints(b):
            return ('const', a[1] + sign * b[1])
        if isinstance(a, tuple) and a[0] == 'cnt' and ints(b):
            return ('cnt', a[1] + sign * b[1])
        if isinstance(b, tuple) and b[0] == 'cnt' and ints(a) and sign == 1:
            return ('cnt', b[1] + a[1])
        if any(isinstance(x, tuple) and x[0] == 'cnt' for x in (a, b)):
            raise _Unknown('arithmetic on the count')
        return None

    def decide(self, m, v, st):
        if v[0] == 'lock':
            return [(True, st)]
        if v[0] == 'cnt':
            if v[1] >= 0:
                return [(True, st)]
            raise _Unknown('sign of the count')
        if v is _ABSENT:
            raise _Unknown('absent value used')
        return None

    def store(self, m, target, value, st):
        if isinstance(target, ast.Subscript):
            tab = self._tab(m, target.value, st)
            if tab is None:
                return None
            r = m.eval(target.slice, st)
            if len(r) != 1 or r[0][0] != 'val':
                raise _Unknown('table key')
            self.write(st, tab, r[0][1], value)
            return True
        return None

    def aug(self, m, node, st):
        if not (isinstance(node.target, ast.Subscript) and self._tab(m, node.target.value, st)):
            if isinstance(node.target, ast.Name) and isinstance(node.op, (ast.Add, ast.Sub)):
                old = st.env.get(node.target.id)
                if isinstance(old, tuple) and old[0] == 'cnt':
                    outs = []
                    for kd, v, s in m.eval(node.value, st):
                        if kd == 'val':
                            s.env[node.target.id] = self.arith(node.op, old, v)
                            outs.append(('next', s))
                        else:
                            outs.append(((kd, v) if kd == 'exc' else 'cut', s))
                    return outs
            return None
        tab = self._tab(m, node.target.value, st)
        if not isinstance(node.op, (ast.Add, ast.Sub)):
            raise _Unknown('operator on the count')
        outs = []
        for kd, vals, s in m.eval_seq([node.target.slice, node.value], st):
            if kd != 'val':
                outs.append(((kd, vals) if kd == 'exc' else 'cut', s))
                continue
            cur = self.load(s, tab, vals[0])
            if cur is None:
                outs.append((('exc', 'KeyError'), s))
                continue
            new = self.arith(node.op, cur, vals[1])
            if new is None:
                raise _Unknown('count arithmetic')
            self.write(s, tab, vals[0], new)
            outs.append(('next', s))
        return outs

    def delete(self, m, target, st):
        if isinstance(target, ast.Subscript):
            tab = self._tab(m, target.value, st)
            if tab is None:
                return None
            r = m.eval(target.slice, st)
            if len(r) != 1 or r[0][0] != 'val':
                raise _Unknown('table key')
            s = r[0][2]
            if self.read(s, tab, r[0][1]) is _ABSENT:
                return [(('exc', 'KeyError'), s)]
            self.write(s, tab, r[0][1], _ABSENT)
            return [('next', s)]
        return None

    def call(self, m, node, fval, recv, args, kwargs, st):
        # something is done to the file the key stands for: a call that receives the key (or is a method of it)
        if self.key is not None and not _is_logging_call(node) and not (isinstance(fval, tuple) and fval[0] == 'fn' and self._follows(m, fval)):
            if any(a == self.key for a in list(args) + list(kwargs.values())) or recv == self.key:
                store = st.data.get('store', {})
                st.ev('write', st.held, self.read(st, self.lt, self.key), self.read(st, self.rc, self.key))
        return None

    def _follows(self, m, fval):
        """a helper that is inlined and itself touches the tables is not 'the write' — its body is analysed instead"""
        fn = fval[1]
        return any(m.reaches(b, self.is_site, 'site') for b in fn.body)


def _flock_facts(funcs, env, creators, writer, notes):
    """→ (flockShapeRecognised, flockDelAtZero)"""
    # the lock table = the dict of the enclosing scope that receives a new Lock; the count table = the one incremented / set to a number
    lt = rc = None
    funcs = dict(funcs)
    for n, d in _nested_defs(writer).items():
        funcs[n] = ('fn', d, False)
    probe = _Machine(_Dom(), funcs)
    scope = [writer] + [fv[1] for n in ast.walk(writer) if isinstance(n, ast.Call) for fv in [probe.static_callee(n.func)] if fv is not None]
    dicts = {n for n, v in env.items() if isinstance(v, tuple) and v[0] == 'obj' and v[1] == 'dict' and v[2] == n}
    names = set(dicts) | {n for n, v in env.items() if isinstance(v, tuple) and v[0] == 'obj' and v[1] == 'lock'}
    for want in ('lt', 'rc'):
        for fn in scope:
            aliases = {n: vals[0].id for n, vals in _bound_names(fn).items() if len(vals) == 1 and isinstance(vals[0], ast.Name) and vals[0].id in names}
            names |= set(aliases)

            def table_of(node):
                if isinstance(node, ast.Subscript) and isinstance(node.value, ast.Name):
                    nm = aliases.get(node.value.id, node.value.id)
                    return nm if nm in dicts else None
                return None
            for n in _body_walk(fn):
                if want == 'lt':
                    if isinstance(n, ast.Assign) and _call_name(n.value) in ('Lock', 'RLock'):
                        for t in n.targets:
                            lt = table_of(t) or lt
                    if isinstance(n, ast.Call) and _call_name(n) == 'setdefault' and len(n.args) == 2 and _call_name(n.args[1]) in ('Lock', 'RLock') \
                            and isinstance(n.func, ast.Attribute) and isinstance(n.func.value, ast.Name):
                        nm = aliases.get(n.func.value.id, n.func.value.id)
                        lt = nm if nm in dicts else lt
                else:
                    if isinstance(n, ast.AugAssign) and table_of(n.target) and table_of(n.target) != lt:
                        rc = table_of(n.target)
                    if isinstance(n, ast.Assign) and isinstance(n.value, (ast.Constant, ast.BinOp)):
                        for t in n.targets:
                            if table_of(t) and table_of(t) != lt:
                                rc = rc or table_of(t)
    if lt is None or rc is None or lt == rc:
        notes['sched.flock'] = 'writer: no table of per-file locks with a table of reference counts found'
        return False, False
    defaults = {n: _dict_default(creators.get(n)) for n in (lt, rc)}
    shape = at_zero = True
    for present in (False, True):
        dom = _FlockDom(lt, rc, present, defaults, names)
        m, outs = _run(dom, funcs, env, writer)
        if not outs:
            return False, False
        for sig, st in outs:
            if not (sig == 'next' or (isinstance(sig, tuple) and sig[0] == 'return')):
                return False, False                 # an exception / abandoned path in the protocol itself
            accs = [e for e in st.trace if e[0] == 'acc']
            writes = [e for e in st.trace if e[0] == 'write']
            gl = {h[1] for e in accs for h in e[2] if h[0] == 'G'}
            # (1) every access to the two tables with the one registry lock held (and not the file's lock)
            if not accs or len(gl) != 1 or any(len([h for h in e[2] if h[0] == 'G']) != 1 or any(h[0] == 'F' for h in e[2]) for e in accs):
                return False, False
            # (2) the write: exactly the file's current lock held, registered with count start + 1
            start1 = ('cnt', 1) if present else ('const', 1)
            if not writes or any(not (len(e[1]) == 1 and e[1][0][0] == 'F' and e[1][0][1] == e[2] and e[2][0] == 'lock' and e[3] == start1) for e in writes):
                return False, False
            if present and any(e[2] != ('lock', 'old') for e in writes):
                return False, False
            # (3) afterwards: the count is back; entries deleted when (and, for at_zero, only when) it reached zero
            fl, fc = dom.read(st, lt, dom.key), dom.read(st, rc, dom.key)
            if not present:
                if not (fl is _ABSENT and fc is _ABSENT):
                    shape = False
            else:
                kept = fl == ('lock', 'old') and fc == ('cnt', 0)
                gone = fl is _ABSENT and fc is _ABSENT
                if not (kept or gone):
                    shape = False
                if not kept:
                    at_zero = False
            if (st.held or ()) != ():
                return False, False
    return shape, shape and at_zero


# ---------------------------------------------------------------------------------------------------------------- restore: loader
class _LoaderDom(_TableDom):
    """The chunk loader.  values: ('elem', table, key) = table[key]; ('emp', is_empty?, table, key, held, position, uid) = the emptiness
    of such an element as evaluated at `position` of the trace with `held`; ('fut', uid) = a submitted writer; a list of futures is
    the sym bound to it (members in data['members']); ('elemof', list).
    events: ('remove', site, table, key, held, unjoined), ('pop', site, table, key, held, facts)"""
    site_calls = ('remove', 'discard', 'pop', 'submit', 'result', 'exception', 'append', 'as_completed', 'wait')
    danger_calls = ('remove', 'discard', 'pop', 'submit')
    max_paths = 3000

    def __init__(self):
        super().__init__()
        self.visited = set()

    def prim(self, m, node, st):
        t = type(node)
        if t is ast.Subscript and isinstance(node.ctx, ast.Load):
            v = m.peek(node.value, st)
            if not self.dict_obj(v):
                return None
            outs = []
            for kd, k, s in m.eval(node.slice, st):
                outs.append(('val', ('elem', v[2], k), s) if kd == 'val' else (kd, k, s))
            return outs
        if t is ast.UnaryOp and isinstance(node.op, ast.Not):
            outs = []
            for kd, v, s in m.eval(node.operand, st):
                if kd != 'val':
                    outs.append((kd, v, s))
                    continue
                if isinstance(v, tuple) and v[0] in ('elem', 'len'):
                    v = self.emptiness(v if v[0] == 'elem' else v[1], True, s)
                elif isinstance(v, tuple) and v[0] == 'emp':
                    v = ('emp', not v[1]) + v[2:]
                elif isinstance(v, tuple) and v[0] == 'const':
                    v = ('const', not v[1])
                elif v is not None:
                    v = ('not', v)
                outs.append(('val', v, s))
            return outs
        if t is ast.Call and _call_name(node) in ('len', 'bool') and isinstance(node.func, ast.Name) and len(node.args) == 1:
            outs = []
            for kd, v, s in m.eval(node.args[0], st):
                if kd == 'val' and isinstance(v, tuple) and v[0] == 'elem':
                    v = ('len', v) if node.func.id == 'len' else self.emptiness(v, False, s)
                elif kd == 'val':
                    v = None
                outs.append((kd, v, s))
            return outs
        if t is ast.Compare and len(node.ops) == 1:
            outs = []
            for kd, vals, s in m.eval_seq([node.left, node.comparators[0]], st):
                if kd != 'val':
                    outs.append((kd, vals, s))
                    continue
                a, b, op = vals[0], vals[1], node.ops[0]
                res = None
                if isinstance(a, tuple) and a[0] == 'len' and isinstance(b, tuple) and b[0] == 'const' and isinstance(b[1], int):
                    n = b[1]
                    empty_when = {(ast.Eq, 0): True, (ast.NotEq, 0): False, (ast.Gt, 0): False, (ast.LtE, 0): True, (ast.Lt, 1): True, (ast.GtE, 1): False}
                    pol = empty_when.get((type(op), n))
                    if pol is None:
                        raise _Unknown('comparison of a length')
                    res = self.emptiness(a[1], pol, s)
                elif isinstance(a, tuple) and a[0] == 'elem' and isinstance(op, (ast.Eq, ast.NotEq)):
                    c = node.comparators[0]
                    if (isinstance(c, ast.Call) and _call_name(c) in ('set', 'frozenset') and not c.args) or (isinstance(c, (ast.Set, ast.Dict, ast.List, ast.Tuple))
                                                                                                         and not getattr(c, 'elts', getattr(c, 'keys', None))):
                        res = self.emptiness(a, isinstance(op, ast.Eq), s)
                    else:
                        raise _Unknown('comparison of a pending set')
                elif all(isinstance(x, tuple) and x[0] == 'const' for x in (a, b)):
                    return None
                elif any(isinstance(x, tuple) and x[0] in ('elem', 'len', 'emp') for x in (a, b)):
                    raise _Unknown('comparison of a pending set')
                outs.append(('val', res, s))
            return outs
        return None

    def emptiness(self, elem, polarity, st):
        return ('emp', polarity, elem[1], elem[2], st.held, len(st.trace), next(_sym_counter))

    def decide(self, m, v, st):
        if v[0] == 'elem':
            v = self.emptiness(v, False, st)
        if v[0] == 'emp':
            dec = st.data.get('dec', ())
            for k, b in dec:
                if k == v[6]:
                    return [(b == v[1], st)]
            outs = []
            for is_empty in (True, False):
                s = st.fork()
                s.data['dec'] = dec + ((v[6], is_empty),)
                s.data['facts'] = s.data.get('facts', ()) + ((v[2], v[3], is_empty, v[4], v[5]),)
                outs.append((is_empty == v[1], s))
            m.tick()
            return outs
        if v[0] in ('fut', 'elemof', 'len'):
            return [(True, st)] if v[0] != 'len' else None
        return None

    def _members(self, st, lst):
        return tuple(u for l, u in st.data.get('members', ()) if l == lst)

    def call(self, m, node, fval, recv, args, kwargs, st):
        nm = _call_name(node)
        if nm in self.site_calls:
            self.visited.add(id(node))
        if nm in ('remove', 'discard') and isinstance(recv, tuple) and recv[0] == 'elem':
            sub, joined = st.data.get('submitted', ()), st.data.get('joined', ())
            st.ev('remove', id(node), recv[1], recv[2], st.held, tuple(u for u in sub if u not in joined))
            return [('val', ('const', None), st)]
        if nm == 'pop' and self.dict_obj(recv) and args:
            st.ev('pop', id(node), recv[2], args[0], st.held, st.data.get('facts', ()))
            return [('val', None, st)]
        if nm == 'submit' and isinstance(recv, tuple) and recv[0] == 'obj' and recv[1] == 'executor' and args and isinstance(args[0], tuple) and args[0][0] == 'fn':
            u = next(_sym_counter)
            st.data['submitted'] = st.data.get('submitted', ()) + (u,)
            st.data['submitted_fns'] = st.data.get('submitted_fns', ()) + (args[0][1],)
            return [('val', ('fut', u), st)]
        if nm == 'append' and isinstance(recv, tuple) and recv[0] == 'sym' and args and isinstance(args[0], tuple) and args[0][0] == 'fut':
            st.data['members'] = st.data.get('members', ()) + ((recv, args[0][1]),)
            return [('val', ('const', None), st)]
        if nm in ('result', 'exception') and isinstance(recv, tuple) and recv[0] in ('fut', 'elemof'):
            add = (recv[1],) if recv[0] == 'fut' else self._members(st, recv[1])
            st.data['joined'] = st.data.get('joined', ()) + add
            return [('val', None, st)]
        if nm == 'as_completed' and args and not kwargs and len(args) == 1:
            return [('val', args[0], st)]
        if nm == 'wait' and args and isinstance(args[0], tuple) and args[0][0] == 'sym' and len(args) == 1 and not kwargs:
            st.data['joined'] = st.data.get('joined', ()) + self._members(st, args[0])
            return [('val', None, st)]
        return None

    def delete(self, m, target, st):
        if isinstance(target, ast.Subscript):
            v = m.peek(target.value, st)
            if self.dict_obj(v):
                r = m.eval(target.slice, st)
                if len(r) != 1 or r[0][0] != 'val':
                    raise _Unknown('table key')
                self.visited.add(id(target))
                r[0][2].ev('pop', id(target), v[2], r[0][1], r[0][2].held, r[0][2].data.get('facts', ()))
                return [('next', r[0][2])]
        return None

    def bind_for(self, m, itervalue, st):
        if isinstance(itervalue, tuple) and itervalue[0] == 'sym' and self._members(st, itervalue):
            return ('elemof', itervalue)
        return None

    def comp(self, m, node, st):
        if isinstance(node, (ast.ListComp, ast.SetComp, ast.GeneratorExp)) and len(node.generators) == 1 and not node.generators[0].ifs:
            g = node.generators[0]
            outs = []
            for kd, it, s in m.eval(g.iter, st):
                if kd != 'val':
                    outs.append((kd, it, s))
                    continue
                saved = dict(s.env)
                m.assign(g.target, self.bind_for(m, it, s), s)
                for kd2, v, s2 in m.eval(node.elt, s):
                    s2.env = dict(saved)
                    if kd2 != 'val':
                        outs.append((kd2, v, s2))
                        continue
                    lst = _fresh()
                    if isinstance(v, tuple) and v[0] == 'fut':
                        s2.data['members'] = s2.data.get('members', ()) + ((lst, v[1]),)
                    outs.append(('val', lst, s2))
            return outs
        return None


def _loader_facts(funcs, env, loader, writer, notes):
    """→ (loaderJoinsWritersFirst, removeUnderGlock, popUnderGlock, decisionInsideRemoveBlock)"""
    dom = _LoaderDom()
    m, outs = _run(dom, funcs, env, loader)
    # every removal / pop / join site of the loader (and its helpers) must have been executed on some path
    static = m.sites(loader, lambda n: isinstance(n, ast.Call) and _call_name(n) in ('remove', 'discard', 'pop'))
    if any(id(n) not in dom.visited for n in static):
        raise _Unknown('a removal / pop of the loader is on no analysed path')
    removes = [e for _, st in outs for e in st.trace if e[0] == 'remove']
    pops = [e for _, st in outs for e in st.trace if e[0] == 'pop']
    rm_sites, pop_sites = {e[1] for e in removes}, {e[1] for e in pops}

    def g_of(held):
        gs = [h for h in held if h[0] == 'G']
        return gs[-1] if len(gs) == 1 else None
    rm_g = {g_of(e[4])[1] if g_of(e[4]) else None for e in removes}
    rm_locked = len(rm_sites) == 1 and len(rm_g) == 1 and None not in rm_g
    pop_g = {g_of(e[4])[1] if g_of(e[4]) else None for e in pops}
    pop_locked = len(pop_sites) == 1 and len(pop_g) == 1 and None not in pop_g and (not rm_locked or pop_g == rm_g)
    joins = bool(removes) and all(e[5] == () for e in removes)
    submitted = False
    inside = bool(pops)
    for sig, st in outs:
        if sig == 'cut':
            raise _Unknown('loader path abandoned')
        first_rm = None
        for i, e in enumerate(st.trace):
            if e[0] == 'remove':
                if first_rm is not None:
                    inside = False             # two removals on one path
                first_rm = (i, e)
                if st.data.get('submitted') and (writer is None or all(f is writer for f in st.data.get('submitted_fns', ()))):
                    submitted = True
            if e[0] == 'pop':
                if first_rm is None or first_rm[0] > i:
                    inside = False
                    continue
                ri, r = first_rm
                g = g_of(r[4])
                # the set was seen empty AFTER the removal, while the lock acquired for the removal was still held, for this very file
                ok = any(f[0] == r[2] and f[1] == r[3] and f[2] is True and g is not None and g in f[3] and f[4] > ri for f in e[5])
                if not ok or e[3] != r[3]:
                    inside = False
        # a path on which the set was seen non-empty must not finalise
        if any(f[2] is False for f in st.data.get('facts', ())) and any(e[0] == 'pop' for e in st.trace):
            inside = False
    joins = joins and submitted
    return joins, rm_locked, pop_locked, inside


# ---------------------------------------------------------------------------------------------------------------- snapshot (static)
def _bool_term(node, env, nested, queues, futures, depth=0):
    """loop test of the upload worker → Lean term over `queueEmpty` / `producerDone`; ValueError when it is something else"""
    if depth > 4:
        raise ValueError('too deep')
    rec = lambda x: _bool_term(x, env, nested, queues, futures, depth)      # noqa: E731
    if isinstance(node, ast.BoolOp):
        return '(' + (' && ' if isinstance(node.op, ast.And) else ' || ').join(rec(v) for v in node.values) + ')'
    if isinstance(node, ast.UnaryOp) and isinstance(node.op, ast.Not):
        return '(!' + rec(node.operand) + ')'
    if isinstance(node, ast.Constant) and isinstance(node.value, bool):
        return 'true' if node.value else 'false'
    if isinstance(node, ast.IfExp):
        return f'(if {rec(node.test)} then {rec(node.body)} else {rec(node.orelse)})'

    def obj(x):
        v = env.get(x.id) if isinstance(x, ast.Name) else None
        return v if isinstance(v, tuple) and v[0] == 'obj' else None
    if isinstance(node, ast.Call) and isinstance(node.func, ast.Attribute) and not node.args and not node.keywords:
        o = obj(node.func.value)
        if o is not None and o[1] == 'queue' and o[2] in queues and node.func.attr == 'empty':
            return 'queueEmpty'
        if o is not None and o[1] == 'future' and o[2] in futures and node.func.attr == 'done':
            return 'producerDone'
    if isinstance(node, ast.Call) and isinstance(node.func, ast.Name) and isinstance(nested.get(node.func.id), ast.Lambda) \
            and not node.args and not node.keywords:
        return _bool_term(nested[node.func.id].body, env, nested, queues, futures, depth + 1)
    if isinstance(node, ast.Call) and isinstance(node.func, ast.Name) and isinstance(nested.get(node.func.id), _FUNCS) \
            and not node.args and not node.keywords:
        fn = nested[node.func.id]
        body = [st for st in fn.body if not (isinstance(st, ast.Expr) and isinstance(st.value, ast.Constant))]
        if isinstance(fn, ast.FunctionDef) and len(body) == 1 and isinstance(body[0], ast.Return) and body[0].value is not None \
                and not (fn.args.args or fn.args.kwonlyargs or fn.args.vararg or fn.args.kwarg or fn.args.posonlyargs):
            return _bool_term(body[0].value, env, nested, queues, futures, depth + 1)
    if isinstance(node, ast.Compare) and len(node.ops) == 1 and isinstance(node.comparators[0], ast.Constant) and isinstance(node.comparators[0].value, int):
        l, n, op = node.left, node.comparators[0].value, type(node.ops[0])
        if isinstance(l, ast.Call) and isinstance(l.func, ast.Attribute) and l.func.attr == 'qsize' and not l.args:
            o = obj(l.func.value)
            if o is not None and o[1] == 'queue' and o[2] in queues:
                empty_when = {(ast.Eq, 0): True, (ast.NotEq, 0): False, (ast.Gt, 0): False, (ast.LtE, 0): True, (ast.Lt, 1): True, (ast.GtE, 1): False}
                pol = empty_when.get((op, n))
                if pol is not None:
                    return 'queueEmpty' if pol else '(!queueEmpty)'
    raise ValueError(ast.unparse(node))


def _loop_exits(stmts):
    """`break`s that leave the loop whose body is `stmts`, and `return`s, below `stmts`"""
    out = []

    def rec(node, in_inner):
        if isinstance(node, ast.Return) or (isinstance(node, ast.Break) and not in_inner):
            out.append(node)
        inner = in_inner or isinstance(node, (ast.For, ast.AsyncFor, ast.While))
        for ch in ast.iter_child_nodes(node):
            if not isinstance(ch, _FUNCS + (ast.ClassDef, ast.Lambda)):
                rec(ch, inner)
    for st in stmts:
        rec(st, False)
    return out


def _worker_loop_test(worker):
    """the condition under which the worker keeps going, as (expression AST, negated?) — `while T: …` or `while True: if C: break; …`
    (the only way out of the loop); None for anything else"""
    stmts = worker.body
    while True:
        loops = [st for st in stmts if isinstance(st, ast.While)]
        if len(loops) == 1:
            break
        wrappers = [st for st in stmts if isinstance(st, (ast.With, ast.AsyncWith, ast.Try)) and any(isinstance(n, ast.While) for n in _walk_local(st))]
        if loops or len(wrappers) != 1:
            return None
        stmts = wrappers[0].body
    loop = loops[0]
    if isinstance(loop.test, ast.Constant):
        if loop.test.value is not True or loop.orelse:
            return None
        body = [st for st in loop.body if not (isinstance(st, ast.Expr) and isinstance(st.value, ast.Call) and _is_logging_call(st.value))]
        first = body[0] if body else None
        if not (isinstance(first, ast.If) and not first.orelse and isinstance(first.body[-1], ast.Break)):
            return None
        if any(isinstance(n, (ast.Await, ast.Yield, ast.Raise)) for st in first.body for n in _walk_local(st)):
            return None
        if len(_loop_exits(first.body)) != 1 or _loop_exits(body[1:]):
            return None
        return first.test, True
    if _loop_exits(loop.body):
        return None                 # a second way out: the test alone does not say when a worker exits
    return loop.test, False


def _snapshot_roles(snap, env, creators):
    """→ (producer function, its future's name, called without arguments?, worker functions)"""
    nested = _nested_defs(snap)
    prods = []
    for name, val in creators.items():
        if _classify(val) != 'future' or not (isinstance(env.get(name), tuple) and env[name][2] == name):
            continue
        nm = _call_name(val)
        fnarg = val.args[1] if nm == 'run_in_executor' and len(val.args) >= 2 else (val.args[0] if nm == 'submit' and val.args else None)
        extra = len(val.args) - (2 if nm == 'run_in_executor' else 1) + len(val.keywords)
        if isinstance(fnarg, ast.Name) and isinstance(nested.get(fnarg.id), ast.FunctionDef):
            prods.append((nested[fnarg.id], name, extra == 0, nm))
    bound = _bound_names(snap)
    workers = []
    gathers = []
    for n in _body_walk(snap):
        if isinstance(n, ast.Await) and _call_name(n.value) == 'gather':
            called = []
            todo = list(n.value.args)
            for _ in range(3):
                nxt = []
                for a in todo:
                    for x in ast.walk(a):
                        if isinstance(x, ast.Call) and isinstance(x.func, ast.Name) and isinstance(nested.get(x.func.id), ast.AsyncFunctionDef):
                            called.append(nested[x.func.id])
                        if isinstance(x, ast.Name) and len(bound.get(x.id, [])) == 1 and bound[x.id][0] is not None and x.id not in nested:
                            nxt.append(bound[x.id][0])
                todo = nxt
            if called:
                gathers.append(n)
                workers.extend(w for w in called if w not in workers)
    return prods, workers, gathers


def _flatten(stmts, nested, depth=0):
    """statement list with the calls `helper()` / `await helper()` of argument-less nested helpers (no `return` inside) replaced by
    the helper's body — so that a handler whose steps were moved into a small function reads like the original"""
    out = []
    for st in stmts:
        v = st.value if isinstance(st, ast.Expr) else None
        if isinstance(v, ast.Await):
            v = v.value
        if isinstance(v, ast.Call) and isinstance(v.func, ast.Name) and v.func.id in nested and not v.args and not v.keywords and depth < 3:
            fn = nested[v.func.id]
            if not _is_generator(fn) and not any(isinstance(n, ast.Return) for n in _body_walk(fn)) and not _params(fn) \
                    and isinstance(fn, ast.AsyncFunctionDef) == isinstance(st.value, ast.Await):
                out.extend(_flatten(fn.body, nested, depth + 1))
                continue
        out.append(st)
    return out


def _abort_protocol(snap, env, gathers, producer_future):
    """try: await gather(workers) / except <everything>: <flag>.set(); raise / finally: await <producer future>  → flag name | None"""
    result = []

    def visit(stmts, finals):
        for st in stmts:
            if isinstance(st, _FUNCS + (ast.ClassDef,)):
                continue
            if isinstance(st, ast.Try):
                mine = any(n is g for b in st.body for n in _walk_local(b) for g in gathers)
                if mine:
                    result.append((st, finals + [st.finalbody]))
                visit(st.body, finals + [st.finalbody])
                for h in st.handlers:
                    visit(h.body, finals)
                visit(st.orelse, finals + [st.finalbody])
                visit(st.finalbody, finals)
            else:
                for field in ('body', 'orelse'):
                    sub = getattr(st, field, None)
                    if isinstance(sub, list) and sub and isinstance(sub[0], ast.stmt):
                        visit(sub, finals)
    visit(snap.body, [])
    # the innermost try around the gather that has a handler
    cands = [(t, f) for t, f in result if t.handlers]
    if len(cands) != 1 and not (cands and all(c[0] is cands[0][0] for c in cands)):
        # several nested trys with handlers around the gather: take the innermost (last visited is innermost)
        pass
    if not cands:
        return None
    t, finals = cands[-1]
    if len(t.handlers) != 1:
        return None
    h = t.handlers[0]
    if not (h.type is None or ast.unparse(h.type) == 'BaseException'):
        return None
    flag = None
    hbody = _flatten(h.body, _nested_defs(snap))
    for st in hbody:
        if isinstance(st, ast.Expr) and isinstance(st.value, ast.Call) and isinstance(st.value.func, ast.Attribute) and st.value.func.attr == 'set' \
                and not st.value.args and isinstance(st.value.func.value, ast.Name):
            v = env.get(st.value.func.value.id)
            if isinstance(v, tuple) and v[0] == 'obj' and v[1] == 'event':
                flag = v[2]
    last = hbody[-1]
    reraises = isinstance(last, ast.Raise) and (last.exc is None or (isinstance(last.exc, ast.Name) and last.exc.id == h.name)) and last.cause is None
    escapes = [n for st in hbody[:-1] for n in _walk_local(st) if isinstance(n, (ast.Return, ast.Raise, ast.Break, ast.Continue))]
    if flag is None or not reraises or escapes:
        return None
    awaited = False
    for fb in finals:
        for st in _flatten(fb, _nested_defs(snap)):
            if isinstance(st, ast.Expr) and isinstance(st.value, ast.Await) and isinstance(st.value.value, ast.Name):
                v = env.get(st.value.value.id)
                if isinstance(v, tuple) and v[0] == 'obj' and v[1] == 'future' and v[2] == producer_future:
                    awaited = True
    return flag if awaited else None


# ---------------------------------------------------------------------------------------------------------------- restore (static)
def _restore_roles(rest, env, creators):
    """→ (loader function, loader executor name, writer function, name of the list of loader futures gathered)"""
    nested = _nested_defs(rest)
    loader = lexec = None
    for n in _body_walk(rest):
        if isinstance(n, ast.Call) and _call_name(n) in ('run_in_executor', 'submit'):
            nm = _call_name(n)
            fnarg = n.args[1] if nm == 'run_in_executor' and len(n.args) >= 2 else (n.args[0] if nm == 'submit' and n.args else None)
            ex = n.args[0] if nm == 'run_in_executor' and n.args else (n.func.value if isinstance(n.func, ast.Attribute) else None)
            if isinstance(fnarg, ast.Name) and isinstance(nested.get(fnarg.id), ast.FunctionDef):
                if loader is not None and nested[fnarg.id] is not loader:
                    return None, None, None
                loader = nested[fnarg.id]
                v = env.get(ex.id) if isinstance(ex, ast.Name) else None
                lexec = v[2] if isinstance(v, tuple) and v[0] == 'obj' and v[1] == 'executor' else None
    writer = None
    if loader is not None:
        probe = _Machine(_Dom(), {k: ('fn', d, False) for k, d in nested.items()})
        for n in probe.sites(loader, lambda x: isinstance(x, ast.Call) and _call_name(x) == 'submit'):
            if n.args and isinstance(n.args[0], ast.Name) and isinstance(nested.get(n.args[0].id), ast.FunctionDef):
                if writer is not None and nested[n.args[0].id] is not writer:
                    return loader, lexec, None
                writer = nested[n.args[0].id]
    return loader, lexec, writer


def _joins_loaders_on_failure(rest, env, lexec):
    """try: await gather(loader futures) / except BaseException: <loader executor>.shutdown(wait=False, cancel_futures=True);
    await gather(…, return_exceptions=True) [or asyncio.wait(…)]; raise"""
    def const(node):
        if isinstance(node, ast.Constant):
            return node.value
        if isinstance(node, ast.Name) and isinstance(env.get(node.id), tuple) and env[node.id][0] == 'const':
            return env[node.id][1]
        return '?'
    for n in _body_walk(rest):
        if not (isinstance(n, ast.Try) and any(isinstance(x, ast.Await) and _call_name(x.value) == 'gather' for b in n.body for x in _walk_local(b))):
            continue
        for i, h in enumerate(n.handlers):
            if not (h.type is None or ast.unparse(h.type) in ('BaseException', 'Exception')):
                continue
            if any(ast.unparse(p.type) in ('BaseException', 'Exception') if p.type is not None else True for p in n.handlers[:i]):
                continue
            sh = wt = rs = None
            hbody = _flatten(h.body, _nested_defs(rest))
            for k, st in enumerate(hbody):
                v = st.value if isinstance(st, ast.Expr) else None
                if isinstance(v, ast.Call) and _call_name(v) == 'shutdown' and isinstance(v.func, ast.Attribute) and isinstance(v.func.value, ast.Name):
                    o = env.get(v.func.value.id)
                    kw = {x.arg: const(x.value) for x in v.keywords}
                    if len(v.args) >= 1:
                        kw.setdefault('wait', const(v.args[0]))
                    if isinstance(o, tuple) and o[0] == 'obj' and o[1] == 'executor' and o[2] == lexec and kw.get('cancel_futures') is True and kw.get('wait') is False:
                        sh = k if sh is None else sh
                if isinstance(v, ast.Await) and isinstance(v.value, ast.Call):
                    c = v.value
                    kw = {x.arg: const(x.value) for x in c.keywords}
                    if (_call_name(c) == 'gather' and kw.get('return_exceptions') is True) or (_call_name(c) == 'wait' and 'timeout' not in kw and len(c.args) == 1):
                        wt = k if wt is None else wt
                if isinstance(st, ast.Raise) and k == len(hbody) - 1 and st.cause is None \
                        and (st.exc is None or (isinstance(st.exc, ast.Name) and st.exc.id == h.name)):
                    rs = k
            early = [x for st in hbody[:-1] for x in _walk_local(st) if isinstance(x, (ast.Return, ast.Raise, ast.Break, ast.Continue))]
            if None not in (sh, wt, rs) and sh < wt < rs and not early:
                return True
    return False


# ---------------------------------------------------------------------------------------------------------------- finite waits
_WAIT_NAMES = {'result', 'exception', 'get', 'put', 'wait', 'wait_for', 'acquire', 'join', 'as_completed', 'timeout', 'timeout_at'}
_TIMEOUT_EXCS = {'TimeoutError', 'concurrent.futures.TimeoutError', 'futures.TimeoutError', 'asyncio.TimeoutError', 'queue.Full', 'queue.Empty',
                 'Full', 'Empty'}


def _timeout_arg(ctx, call):
    """the finite time-out argument of a wait primitive (AST), or None (not a wait / no time-out / `timeout=None`)"""
    f = call.func
    name = f.attr if isinstance(f, ast.Attribute) else (f.id if isinstance(f, ast.Name) else None)
    if name not in _WAIT_NAMES:
        return None
    base = ctx.unparse(f.value) if isinstance(f, ast.Attribute) else ''
    t = {k.arg: k.value for k in call.keywords}.get('timeout')
    a = call.args
    if t is None and not any(isinstance(x, ast.Starred) for x in a):
        lib = base in ('asyncio', 'concurrent.futures', 'futures')
        if name in ('result', 'exception') and len(a) == 1:
            t = a[0]
        elif name == 'wait' and not lib and len(a) == 1:
            t = a[0]
        elif name == 'wait' and lib and len(a) >= 2:
            t = a[1]
        elif name in ('wait_for', 'as_completed') and len(a) >= 2:
            t = a[1]
        elif name in ('timeout', 'timeout_at') and base == 'asyncio' and len(a) == 1:
            t = a[0]
        elif name == 'get' and len(a) == 2 and isinstance(a[0], ast.Constant) and isinstance(a[0].value, bool):
            t = a[1]
        elif name == 'put' and len(a) == 3:
            t = a[2]
        elif name == 'acquire' and len(a) == 2:
            t = a[1]
    if t is None or (isinstance(t, ast.Constant) and t.value is None):
        return None
    return t


def _timed_waits(ctx, tree):
    """→ [(enclosing function names, call node, timeout node, retried?)] for every finite-time-out wait under `tree`"""
    out = []

    def retried(call, chain):
        # nearest enclosing loop inside the same function
        for i in range(len(chain) - 1, -1, -1):
            node = chain[i]
            if isinstance(node, (ast.FunctionDef, ast.AsyncFunctionDef, ast.Lambda)):
                return False
            if isinstance(node, ast.While):
                if any(x is call for x in ast.walk(node.test)):
                    return True             # `while not ev.wait(t): …`
                # try … except <time-out>: <no raise / return / break>
                for tr in chain[i + 1:]:
                    if isinstance(tr, ast.Try) and any(x is call for st in tr.body for x in ast.walk(st)):
                        hs = [h for h in tr.handlers if h.type is not None and (
                            ctx.unparse(h.type) in _TIMEOUT_EXCS
                            or (isinstance(h.type, ast.Tuple) and any(ctx.unparse(e) in _TIMEOUT_EXCS for e in h.type.elts)))]
                        if hs and not any(isinstance(x, (ast.Return, ast.Raise, ast.Break)) for h in hs for st in h.body for x in ast.walk(st)):
                            return True
                return False
            if isinstance(node, (ast.For, ast.AsyncFor)):
                return False
        return False

    def completed(call, chain):
        # `for f in …as_completed(…): f.result(t)` — the future is done, the call does not wait
        f = call.func
        if not (isinstance(f, ast.Attribute) and f.attr in ('result', 'exception') and isinstance(f.value, ast.Name)):
            return False
        return any(isinstance(n, ast.For) and isinstance(n.target, ast.Name) and n.target.id == f.value.id
                   and isinstance(n.iter, ast.Call) and ctx.unparse(n.iter.func).endswith('as_completed') for n in chain)

    def walk(node, chain, funcs):
        for ch in ast.iter_child_nodes(node):
            fs = funcs + [ch.name] if isinstance(ch, (ast.FunctionDef, ast.AsyncFunctionDef)) else funcs
            if isinstance(ch, ast.Call):
                t = _timeout_arg(ctx, ch)
                if t is not None and completed(ch, chain + [node]):
                    t = None
                if t is not None:
                    out.append((funcs, ch, t, retried(ch, chain + [node])))
            walk(ch, chain + [node], fs)
    walk(tree, [], [])
    return out


def _number(ctx, tree, funcs_nodes, t):
    """value of a time-out expression: a literal, a module-level constant, or the default of a parameter of an enclosing function"""
    if isinstance(t, ast.Constant) and isinstance(t.value, (int, float)) and not isinstance(t.value, bool):
        return t.value
    if isinstance(t, ast.Name):
        for fn in reversed(funcs_nodes):
            names = [a.arg for a in fn.args.args]
            d = dict(zip(names[len(names) - len(fn.args.defaults):], fn.args.defaults)).get(t.id)
            if d is not None:
                return _number(ctx, tree, [], d)
        for st in tree.body:
            if isinstance(st, ast.Assign) and any(isinstance(x, ast.Name) and x.id == t.id for x in st.targets):
                return _number(ctx, tree, [], st.value)
    return None


def _lean_str(s):
    return '"' + ''.join(c if (32 <= ord(c) < 127 and c not in '"\\') else '?' for c in s) + '"'



# ---------------------------------------------------------------------------------------------------------------- the section
def _b(x):
    return 'true' if x else 'false'


def _guard(notes, key, default, thunk):
    """run one analysis; anything it does not understand (or a bug in it) yields `default` and a note — never a guess"""
    try:
        return thunk()
    except _Unknown as e:
        notes[key] = f'not recognised: {e}'
    except RecursionError:
        notes[key] = 'not recognised: recursion limit'
    except Exception as e:  # noqa: BLE001
        notes[key] = f'analysis failed: {type(e).__name__}: {e}'
    return default


def section(ctx):
    src = (ctx.REPO / 'replicat' / 'repository.py').read_text()
    tree = ast.parse(src)
    emit, notes, un = ctx.emit, ctx.notes, ctx.unparse
    cls = _class_of(tree, 'Repository')

    # ---- slots
    fill = _guard(notes, 'sched.slot_fill', None, lambda: _slot_fill(tree, cls, notes)) if cls is not None else None
    q = fill[0] if fill else None
    base = fill[1] if fill else None
    count = fill[2] if fill else None
    emit(f'def slotBase : Nat := {base}' if base is not None else 'opaque slotBase : Nat')
    emit(f'def slotCountIsConcurrent : Bool := {_b(count == (1, 0))}')
    # number of slots put into the queue, as a function of `concurrent` (hi - lo of the range)
    cnt = None
    if count is not None and count[0] >= 0 and count[1] + base >= 0:
        hi = 'concurrent' if count[0] == 1 else f'{count[0]} * concurrent'
        cnt = f'(({hi} + {count[1] + base})) - {base}'
    elif count is not None:
        notes['sched.slot_count'] = f'not expressible over Nat: {count}'
    emit(f'def slotCount (concurrent : Nat) : Nat := {cnt}' if cnt is not None else 'opaque slotCount : Nat → Nat')
    # the slot managers: every method that takes something out of the slot queue
    cms = []
    users = []
    for st in cls.body if (cls is not None and q) else []:
        if isinstance(st, _FUNCS) and st.name != '__init__' and any(_self_attr(n) == q for n in ast.walk(st)):
            users.append(st)
    fin = bool(users) and all(_guard(notes, 'sched.slot_cm', False, lambda f=f: _slot_cm(f, q)) for f in users)
    cms = [f.name for f in users]
    for f in users:
        ctx.fp('repository.' + ('_acquire_slot' if isinstance(f, ast.AsyncFunctionDef) else '_acquire_slot_threadsafe'), f)
    if fin and not (any(isinstance(f, ast.AsyncFunctionDef) for f in users) and any(isinstance(f, ast.FunctionDef) for f in users)):
        fin = False         # the model has the coroutine variant and the thread variant
    emit(f'def slotReleaseInFinally : Bool := {_b(fin)}')
    if not fin:
        notes['sched.slot_cm'] = notes.get('sched.slot_cm', 'slot context managers: request / try-yield / finally-give-back shape not recognised')
    # ---- finite waits: does anything give up after a while?
    bounded, tmo_ms, unmodelled = False, 0, []
    for funcs, call, t, retried in _timed_waits(ctx, tree):
        if retried:
            continue
        where = '.'.join(funcs) or '<module>'
        if funcs and funcs[-1] in cms:
            v = _number(ctx, tree, [x for x in users if x.name == funcs[-1]], t)
            if not bounded:
                tmo_ms = int(round(v * 1000)) if v is not None and v >= 0 else 0
            bounded = True
            notes[f'sched.slot_wait.{funcs[-1]}'] = f'the slot request gives up after {un(t)} (= {v}) seconds: {un(call)[:80]}'
        else:
            unmodelled.append(f'{where}: {un(call)[:70]}')
    emit(f'def slotWaitBounded : Bool := {_b(bounded)}')
    emit(f'def slotWaitTimeoutMs : Nat := {tmo_ms}')
    emit('def unmodelledTimedWaits : List String := [' + ', '.join(_lean_str(x) for x in unmodelled) + ']')
    if unmodelled:
        notes['sched.timed_waits'] = 'finite waits that are not retried and have no transition in the model: ' + '; '.join(unmodelled)[:300]
    under = bool(cms) and _guard(notes, 'sched.under_slot', False, lambda: _transfers_under_slot(cls, cms, notes))
    emit(f'def transfersUnderSlot : Bool := {_b(under)}')

    # ---- snapshot: worker loop test, abort protocol
    snap = _method(cls, 'snapshot')
    term = None
    abort_ok = stops = rechecks = False
    if snap is not None:
        funcs, env, creators = _seed(tree, cls, [snap])
        prods, workers, gathers = _snapshot_roles(snap, env, creators)
        prod = prods[0] if len(prods) == 1 else None
        if prod is None:
            notes['sched.snapshot'] = f'{len(prods)} functions handed to an executor in snapshot (1 expected)'
        worker = workers[0] if len(workers) == 1 else None
        ctx.fp('repository.snapshot._worker', worker)
        ctx.fp('repository.snapshot._chunk_producer', prod[0] if prod else None)
        flag = _guard(notes, 'sched.abort', None, lambda: _abort_protocol(snap, env, gathers, prod[1])) if (prod and gathers) else None
        abort_ok = flag is not None
        events = [flag] if flag else []
        if not events:
            # the failure handler was not recognised: the producer is still analysed against the only Event object of snapshot
            evs = sorted({v[2] for v in env.values() if isinstance(v, tuple) and v[0] == 'obj' and v[1] == 'event'})
            events = evs if len(evs) == 1 else []
        queues = set()
        if prod is not None and not prod[2]:
            notes['sched.producer'] = 'the producer is started with arguments'
        elif prod is not None:
            # (without an identified flag nothing counts as an abort test: both facts come out false; the queue is still identified)
            stops, rechecks, queues = _guard(notes, 'sched.producer', (False, False, set()), lambda: _producer_facts(funcs, env, prod[0], events, notes))
        if worker is not None and prod is not None and len(queues) == 1:
            lt = _worker_loop_test(worker)
            if lt is None:
                notes['sched.worker_test'] = 'the worker has no single loop whose test says when it exits'
            else:
                try:
                    wenv = dict(env)
                    for nm in _bound_names(worker):
                        wenv.pop(nm, None)
                    for nm in _params(worker):
                        wenv.pop(nm, None)
                    nested = dict(_nested_defs(snap))
                    nested.update(_nested_defs(worker))
                    for f in (snap, worker):         # argument-less lambdas bound once
                        for nm, vals in _bound_names(f).items():
                            if len(vals) == 1 and isinstance(vals[0], ast.Lambda) and not _params(vals[0]) and nm not in nested:
                                nested[nm] = vals[0]
                                wenv.pop(nm, None)
                    term = _bool_term(lt[0], wenv, nested, queues, {prod[1]})
                    if lt[1]:
                        term = '(!' + term + ')'
                except ValueError as e:
                    notes['sched.worker_test'] = f'loop test not translatable: {e}'
        elif 'sched.worker_test' not in notes:
            notes['sched.worker_test'] = 'worker / producer / chunk queue of snapshot not identified'
    if term is not None:
        emit(f'def workerContinues (queueEmpty producerDone : Bool) : Bool := {term}')
    else:
        emit('opaque workerContinues : Bool → Bool → Bool')
    emit(f'def abortOnWorkerFailure : Bool := {_b(abort_ok)}')
    emit(f'def producerStopsOnAbort : Bool := {_b(stops)}')
    emit(f'def producerRechecksWhileFull : Bool := {_b(rechecks)}')
    if not stops:
        notes.setdefault('sched.producer_abort', 'chunk producer: the abort flag is not tested (clear) before every attempt to queue a chunk, or a set flag does not end the producer')
    elif not rechecks:
        notes.setdefault('sched.producer_put', 'chunk producer: the put is not a loop of bounded attempts that re-tests the abort flag')

    # ---- restore: per-file write locks, loader protocol
    rest = _method(cls, 'restore')
    shape = at_zero = joins = rm_locked = pop_locked = inside = joins_fail = False
    if rest is not None:
        funcs, env, creators = _seed(tree, cls, [rest])
        loader, lexec, writer = _restore_roles(rest, env, creators)
        ctx.fp('repository.restore._write_chunk_ref', writer)
        if writer is not None:
            shape, at_zero = _guard(notes, 'sched.flock', (False, False), lambda: _flock_facts(funcs, env, creators, writer, notes))
        if loader is not None:
            joins, rm_locked, pop_locked, inside = _guard(notes, 'sched.loader', (False, False, False, False),
                                                          lambda: _loader_facts(funcs, env, loader, writer, notes))
            joins_fail = _guard(notes, 'sched.loader_failure', False, lambda: _joins_loaders_on_failure(rest, env, lexec))
        else:
            notes['sched.loader'] = 'restore: no nested function handed to an executor'
    emit(f'def flockShapeRecognised : Bool := {_b(shape)}')
    emit(f'def flockDelAtZero : Bool := {_b(at_zero)}')
    if not shape:
        notes.setdefault('sched.flock', 'writer: register / write / unregister protocol of the per-file locks not recognised')
    emit(f'def decisionInsideRemoveBlock : Bool := {_b(inside)}')
    emit(f'def restoreJoinsLoadersOnFailure : Bool := {_b(joins_fail)}')
    emit(f'def loaderJoinsWritersFirst : Bool := {_b(joins)}')
    emit(f'def removeUnderGlock : Bool := {_b(rm_locked)}')
    emit(f'def popUnderGlock : Bool := {_b(pop_locked)}')
    ctx.fp('repository.restore', rest)
    # the names behind the roles, for whoever instruments the implementation (evidence: extract_notes['sched.roles'])
    roles = {'slot_queue': q, 'slot_managers': cms}
    if snap is not None:
        roles.update(producer=prod[0].name if prod else None, producer_future=prod[1] if prod else None, worker=worker.name if worker else None,
                     abort_flag=(events[0] if events else None), chunk_queue=sorted(queues))
    if rest is not None:
        roles.update(loader=loader.name if loader else None, writer=writer.name if writer else None, loader_executor=lexec)
    notes['sched.roles'] = ', '.join(f'{k}={v}' for k, v in roles.items())
