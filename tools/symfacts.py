"""Fact-level queries over symflow events that more than one extractor plug-in needs (local backend: 03_crash.py and 13_store.py).

Every function returns plain Python values; `None` / `False` means "not recognised" and the caller emits `opaque` / `false`.
The docstring of each query says what must hold of the SOURCE, in terms of behaviour rather than spelling."""
import symflow as sf
from symflow import (SELF, NONE, FALSE, is_const, subterms, mentions, method_call, global_call, strip_wrappers)

TEMP_CREATORS = {
    'tempfile.NamedTemporaryFile': ('mode', 'buffering', 'encoding', 'newline', 'suffix', 'prefix', 'dir', 'delete'),
    'tempfile.mkstemp': ('suffix', 'prefix', 'dir', 'text'),
}
LOGGING = ('logger.', 'logging.', 'log.', 'LOGGER.', 'warnings.')
READ_ONLY_METHODS = {'exists', 'is_file', 'is_dir', 'stat', 'lstat', 'is_symlink'}
PATH_PARTS = {'parent', 'name', 'stem', 'suffix', 'parts', 'anchor'}


def is_logging(v):
    """a call that only reports (logger.*, logging.*, print)"""
    if v[0] != 'call':
        return False
    f = v[1]
    while f[0] == 'attr':
        f = f[1]
    if f[0] == 'modvar':
        return f[1] in ('logger', 'log', 'LOGGER', '_logger') or (f[2][0] == 'call' and f[2][1] == ('global', 'logging.getLogger'))
    if f[0] == 'global':
        return f[1] == 'print' or f[1].startswith(LOGGING)
    return False


def temp_creation(v):
    """the first temporary-file creation below term v → (call term, keyword view of its arguments) or None"""
    for t in subterms(v):
        for name, params in TEMP_CREATORS.items():
            g = global_call(t, (name,))
            if g is not None:
                _, args, kw = g
                kw = dict(kw)
                for p, a in zip(params, args):
                    kw.setdefault(p, a)
                return t, kw, name
    return None


def rename_of(v):
    """`src.replace(dst)` / `src.rename(dst)` / `os.replace(src, dst)` / `os.rename(src, dst)` / `shutil.move(src, dst)` → (src, dst)"""
    m = method_call(v, ('replace', 'rename'))
    if m is not None and len(m[2]) == 1 and not m[3]:
        return m[0], m[2][0]
    g = global_call(v, ('os.replace', 'os.rename', 'shutil.move'))
    if g is not None and len(g[1]) == 2:
        return g[1][0], g[1][1]
    return None


def parent_of(v):
    """the term whose parent directory v denotes (`x.parent`, `os.path.dirname(x)`) or None"""
    v = strip_wrappers(v)
    if v[0] == 'attr' and v[2] == 'parent':
        return strip_wrappers(v[1])
    g = global_call(v, ('os.path.dirname', 'posixpath.dirname'))
    if g is not None and len(g[1]) == 1:
        return strip_wrappers(g[1][0])
    return None


def suppresses(ev, interp, exc_names=('FileNotFoundError', 'OSError', 'Exception', 'BaseException')):
    """is the event inside `with suppress(<one of exc_names>)` or a try body whose handler for one of them does not raise"""
    for c in ev.ctx:
        if c[0] == 'with':
            for v in c[2]:
                g = global_call(v, ('contextlib.suppress',))
                if g is not None and any(a[0] == 'global' and a[1].split('.')[-1] in exc_names for a in g[1]):
                    return True
        if c[0] == 'try-body':
            for h in interp.trys[c[1]]['handlers']:
                types = h['type'][1] if h['type'][0] == 'tuple' else (h['type'],)
                if any(t == NONE or (t[0] == 'global' and t[1].split('.')[-1] in exc_names) for t in types) and h['term'] != 'raise':
                    return True
    return False


def unlink_of(ev, interp):
    """an unlink of a path → (path term, tolerant of a missing file?) or None"""
    m = method_call(ev.value, ('unlink',))
    if m is not None and len(m[2]) <= 1:
        mo = m[3].get('missing_ok', m[2][0] if m[2] else FALSE)
        if is_const(mo, bool):
            return m[0], bool(mo[1]) or suppresses(ev, interp)
        return m[0], (True if suppresses(ev, interp) else None)
    g = global_call(ev.value, ('os.unlink', 'os.remove'))
    if g is not None and len(g[1]) == 1:
        return g[1][0], suppresses(ev, interp)
    return None


def uses_directly(v, target, opaque_terms=()):
    """does term v use `target` itself (not only `target.parent` / `.name` …, and not merely inside one of opaque_terms)"""
    def stop(t):
        return t in opaque_terms or (t[0] == 'attr' and t[2] in PATH_PARTS and strip_wrappers(t[1]) == target)
    for t in subterms(v, stop):
        if stop(t):
            continue
        if t == target:
            return True
    return False


# ------------------------------------------------------------------------------------------------ what reaches the backend
INTROSPECTION = {'isinstance', 'callable', 'hasattr', 'getattr', 'id', 'type', 'repr', 'str', 'print', 'bool', 'asyncio.iscoroutinefunction'}


def backend_op(name):
    """predicate on terms: `self.<some attribute>.<name>` (the backend method object)"""
    def is_target(t):
        return t[0] == 'attr' and t[2] == name and t[1][0] == 'attr' and t[1][1] == SELF
    return is_target


def event_invocation(e, is_target):
    """(positional args, keyword args) with which the call event invokes the target — directly, or by handing it (followed by its
    arguments) to something that runs it (`run_in_executor(ex, f, …)`, `partial(f, …)`, an un-inlined helper) — else None"""
    if e.kind != 'call':
        return None
    if is_target(e.callee):
        return e.args, e.kwargs
    if is_logging(e.value) or (e.callee[0] == 'global' and (e.callee[1].startswith('inspect.') or e.callee[1] in INTROSPECTION)):
        return None             # asking ABOUT the callable is not running it
    for i, a in enumerate(e.args):
        if is_target(a):
            return e.args[i + 1:], e.kwargs
    return None


def invocations_of(events, op):
    t = backend_op(op)
    return [(e,) + inv for e in events for inv in [event_invocation(e, t)] if inv is not None]


def arg_of(args, kwargs, index, name):
    if name in kwargs:
        return kwargs[name]
    return args[index] if index < len(args) else None



# ------------------------------------------------------------------------------------------------ local backend: upload
def local_upload_shape(interp, fn, payload_arg=1):
    """The atomic-publication shape of `Local.<fn>(name, payload, …)`:

      * exactly one rename, outside every exception handler; its source derives from ONE temporary-file creation
        (`NamedTemporaryFile` / `mkstemp`), its destination derives from the `name` parameter and not from the temporary;
      * the rename sits in a `try` body, after at least one write of the payload parameter into the temporary (same try body), and
        nothing but logging follows it there;
      * before the rename nothing uses the destination itself (only its `.parent` / `.name`, or read-only probes);
      * that `try` has a catch-all handler (bare / BaseException) that unconditionally unlinks the temporary (tolerating its absence)
        and then unconditionally re-raises; it does not return.

    → dict(ok, why, suffix, same_dir)"""
    res = {'ok': False, 'why': '', 'suffix': None, 'same_dir': False}
    events, _ = interp.run(fn)
    if events is None:
        res['why'] = 'no such method'
        return res
    renames = []
    for e in events:
        if e.kind == 'call':
            r = rename_of(e.value)
            if r is not None:
                renames.append((e, strip_wrappers(r[0]), strip_wrappers(r[1])))
    if len(renames) != 1:
        res['why'] = f'{len(renames)} renames'
        return res
    er, src, dst = renames[0]
    tc = temp_creation(src)
    if tc is None:
        res['why'] = 'the source of the rename does not derive from a temporary-file creation'
        return res
    tcall, kw, creator = tc
    creations = {e.value for e in events if e.kind == 'call' for t in [temp_creation(e.value)] if t is not None and e.value == t[0]}
    if not is_const(kw.get('suffix', NONE), str):
        res['why'] = 'suffix of the temporary is not a string constant'
    else:
        res['suffix'] = kw['suffix'][1]
    res['same_dir'] = ('dir' in kw and parent_of(kw['dir']) == dst and (creator != 'tempfile.NamedTemporaryFile' or kw.get('delete') == FALSE)
                       and len(creations) == 1)
    if not mentions(dst, ('arg', 0)) or mentions(dst, tcall):
        res['why'] = 'the destination of the rename is not derived from the name parameter'
        return res
    if er.inside('handler') or er.inside('finally'):
        res['why'] = 'rename inside a handler'
        return res
    tries = [c[1] for c in er.ctx if c[0] == 'try-body']
    if not tries:
        res['why'] = 'rename not inside a try body'
        return res
    tid = tries[-1]
    in_try = [e for e in events if e.inside('try-body', tid)]
    payload = ('arg', payload_arg)

    def is_write(e):
        if e.kind != 'call' or e.seq > er.seq:
            return False
        m = method_call(e.value, ('write_bytes', 'write_text', 'write', 'writelines'))
        if m is not None and mentions(m[0], tcall) and any(mentions(a, payload) for a in m[2]):
            return True
        g = global_call(e.value, ('shutil.copyfileobj', 'os.write'))
        if g is not None and len(g[1]) >= 2:
            a, b = (g[1][0], g[1][1]) if g[0] != 'os.write' else (g[1][1], g[1][0])
            return mentions(b, tcall) and mentions(a, payload)
        return False
    if not any(is_write(e) for e in in_try):
        res['why'] = 'no write of the payload into the temporary before the rename (same try body)'
        return res
    after = [e for e in in_try if e.seq > er.seq and e.kind == 'call' and not is_logging(e.value)]
    if after:
        res['why'] = 'the rename is not the last effect of the try body: ' + sf.show(after[0].value)[:80]
        return res
    for e in events:
        if e.seq < er.seq and e.kind == 'call' and e.value != tcall and uses_directly(e.value, dst, (tcall,)):
            m = method_call(e.value, READ_ONLY_METHODS)
            if m is not None and strip_wrappers(m[0]) == dst:
                continue
            if mentions(e.value, tcall) and not uses_directly(e.value, dst, (tcall,)):
                continue
            res['why'] = 'the destination is used before the rename: ' + sf.show(e.value)[:80]
            return res
    hs = interp.trys[tid]['handlers']
    catch_all = [i for i, h in enumerate(hs) if h['type'] == NONE or (h['type'][0] == 'global' and h['type'][1].split('.')[-1] == 'BaseException')]
    if not catch_all or any(hs[j]['term'] != 'raise' for j in range(catch_all[0])):
        res['why'] = 'no catch-all handler (or an earlier handler swallows)'
        return res
    hi = catch_all[0]
    lo, hi_seq = hs[hi]['events']
    hev = events[lo:hi_seq]
    base = er.guard
    unl = None
    for e in hev:
        if e.kind == 'call':
            u = unlink_of(e, interp)
            if u is not None and mentions(u[0], tcall) and u[1] and e.guard <= base:
                unl = e
                break
    if unl is None:
        res['why'] = 'the handler does not unconditionally unlink the temporary (missing_ok)'
        return res
    if any(e.kind == 'return' and not e.inside('inline') for e in hev):
        res['why'] = 'the handler returns'
        return res
    reraise = [e for e in hev if e.kind == 'raise' and e.seq > unl.seq and e.guard <= base and (e.value == NONE or e.value == ('exc', tid, hi))
               and [c for c in e.ctx if c[0] in ('handler', 'try-body', 'inline')][-1][:2] == ('handler', tid)]
    if not reraise or hs[hi]['term'] != 'raise':
        res['why'] = 'the handler does not unconditionally re-raise after the unlink'
        return res
    res['ok'] = True
    return res


# ------------------------------------------------------------------------------------------------ local backend: listing
def own_yields(events):
    """the yields of the executed generator itself (those of generator helpers appear again where the helper is iterated)"""
    return [e for e in events if e.kind == 'yield' and not any(c[0] in ('inline', 'deferred') for c in e.ctx)]


def suffix_exclusion(y):
    """suffixes S such that the yield y is guarded by ¬ X.endswith(S) (or ¬ X[-len(S):] == S) where the yielded value is computed
    from X (or X is the `.name` / `.path` of the directory entry the value is computed from)"""
    out = set()
    for atom, pol in y.guard:
        if pol or not isinstance(atom, tuple):
            continue
        recv = s = None
        m = method_call(atom, ('endswith',))
        if m is not None and len(m[2]) == 1 and is_const(m[2][0], str):
            recv, s = m[0], m[2][0][1]
        elif atom[0] == 'eq' and atom[1][0] == 'sub' and atom[1][2][0] == 'slice' and is_const(atom[2], str):
            sl = atom[1][2]
            if is_const(sl[1], int) and sl[1][1] == -len(atom[2][1]) and sl[2] == NONE and sl[3] == NONE:
                recv, s = atom[1][1], atom[2][1]
        if recv is None or not s:
            continue
        core = y.value              # the string that is yielded, before slicing / separator replacement
        while True:
            if core[0] == 'sub' and core[2][0] == 'slice':
                core = core[1]
                continue
            m2 = method_call(core, ('replace',))
            if m2 is not None and len(m2[2]) == 2:
                core = m2[0]
                continue
            break
        r, c = strip_wrappers(recv), strip_wrappers(core)
        ok = recv == core or r == c
        if not ok and r[0] == 'attr' and r[2] in ('name', 'path'):
            ok = c == r[1] or c == ('attr', r[1], 'path')
        if ok:
            out.add(s)
    return out


def root_attr(interp):
    """attributes of self that `__init__` derives from its first parameter → {attr: value term}"""
    events, _ = interp.run('__init__')
    out = {}
    for e in events or []:
        if e.kind == 'store' and e.value[0] == 'attr' and e.value[1] == SELF and e.extra is not None and mentions(e.extra, ('arg', 0)):
            out[e.value[2]] = e.extra
    return out


def py_nat_expr(v, roots):
    """a slice bound as Python source over the single name `pathLength` (= len(str(self.<root>))) → (source, uses_path_length) or None"""
    if is_const(v, int) and v[1] >= 0:
        return str(v[1]), False
    g = global_call(v, ('len',))
    if g is not None and v[1] == ('global', 'len') and len(g[1]) == 1:
        x = g[1][0]
        if x[0] == 'concat' and len(x[1]) == 1:
            x = x[1][0]
        m = method_call(x, ('__str__', '__fspath__'))
        if m is not None and not m[2]:
            x = m[0]
        x = strip_wrappers(x, ('str', 'os.fspath', 'os.fsdecode'))
        if x[0] == 'attr' and x[1] == SELF and x[2] in roots:
            return 'pathLength', True
        return None
    if v[0] == 'binop' and v[1] in ('Add', 'Sub', 'Mult'):
        a, b = py_nat_expr(v[2], roots), py_nat_expr(v[3], roots)
        if a is None or b is None:
            return None
        return f'({a[0]} {dict(Add="+", Sub="-", Mult="*")[v[1]]} {b[0]})', a[1] or b[1]
    return None


def local_listing(interp):
    """`Local.list_files`: → dict(exclude = the one suffix every yielded path is guarded against, slice = (python source of the
    lower bound of the slice every yielded value ends with, does it use len(str(root))), why)"""
    res = {'exclude': None, 'slice': None, 'why': ''}
    events, _ = interp.run('list_files')
    ys = own_yields(events or [])
    if not ys:
        res['why'] = 'no yields'
        return res
    sets = [suffix_exclusion(y) for y in ys]
    common = set.intersection(*sets) if sets else set()
    if len(common) == 1 and all(len(s) == 1 for s in sets):
        res['exclude'] = next(iter(common))
    else:
        res['why'] = f'yields are not all guarded against one suffix: {[sorted(s) for s in sets]}'
    roots = root_attr(interp)
    bounds = set()
    for y in ys:
        v = y.value
        if v[0] == 'sub' and v[2][0] == 'slice' and v[2][2] == NONE and v[2][3] == NONE and v[2][1] != NONE:
            bounds.add(py_nat_expr(v[2][1], roots))
        else:
            bounds.add(None)
    if len(bounds) == 1 and None not in bounds:
        res['slice'] = next(iter(bounds))
    return res


def local_root_absolute(interp):
    """`__init__` stores, in the attribute derived from the connection string, something made absolute
    (`.absolute()`, `.resolve()`, `os.path.abspath`, `os.path.realpath`)"""
    for attr, v in root_attr(interp).items():
        v = strip_wrappers(v)
        m = method_call(v, ('absolute', 'resolve'))
        if m is not None:
            return True
        if global_call(v, ('os.path.abspath', 'os.path.realpath')) is not None:
            return True
    return False


def local_delete_missing_ok(interp):
    """`Local.delete`: the unlink of the object path tolerates a missing file → True / False; no unlink found → None"""
    events, _ = interp.run('delete')
    found = None
    for e in events or []:
        if e.kind == 'call':
            u = unlink_of(e, interp)
            if u is not None and mentions(u[0], ('arg', 0)):
                if u[1] is None:
                    return None
                found = bool(u[1]) if found is None else (found and bool(u[1]))
    return found


def local_facts(repo):
    """everything both plug-ins need about replicat/backends/local.py (cached per repo path)"""
    key = str(repo)
    if key in _cache:
        return _cache[key]
    mod = sf.Module((repo / 'replicat' / 'backends' / 'local.py').read_text())
    out = {'up': None, 'ups': None, 'listing': None}
    if 'Local' in mod.classes:
        it = sf.Interp(mod, 'Local')
        out['up'] = local_upload_shape(it, 'upload')
        out['ups'] = local_upload_shape(it, 'upload_stream')
        out['listing'] = local_listing(it)
        out['root_abs'] = local_root_absolute(it)
        out['missing_ok'] = local_delete_missing_ok(it)
    _cache[key] = out
    return out


_cache = {}
