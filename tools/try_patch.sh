#!/bin/bash
# usage: tools/try_patch.sh <patch file> <PID> [quick|thorough]
# Applies the patch to a scratch worktree of /repo, runs THIS tree's check of PID against it, prints exit code and the VIOLATION lines
# with their signatures, then restores evidence/ and Generated.lean (for /repo) and removes the worktree.
P=$(readlink -f "$1"); PID=$2; TIER=${3:-quick}
cd "$(dirname "$(readlink -f "$0")")/.." || exit 2
W=$(mktemp -d /tmp/tp_XXXXXX); rmdir "$W"
git -C /repo worktree add -q --detach "$W" HEAD || exit 2
if ! git -C "$W" apply "$P" 2>/dev/null && ! git -C "$W" apply --3way "$P" 2>/dev/null; then echo "PATCH-DOES-NOT-APPLY $P"; git -C /repo worktree remove --force "$W"; exit 3; fi
mkdir -p .work; rm -rf .work/evidence_keep_tp; cp -r evidence .work/evidence_keep_tp
REPLICAT_REPO=$W timeout 2400 /venv/bin/python -m harness.check $PID --tier $TIER > .work/try_patch.log 2>&1; RC=$?
echo "exit=$RC"
grep -E "^VIOLATION|^INFRA" .work/try_patch.log | while read -r l; do
  f=$(echo "$l" | sed -n 's/.*replay=\([^ ]*\).*/\1/p')
  s=$(python3 -c "import json,sys; d=json.load(open(sys.argv[1])); print(d.get('sig') or ('broken: '+', '.join((d.get('broken_proof_obligations') or [])[:3]+[str(x)[:80] for x in (d.get('disagreements') or [])[:2]])))" "$f" 2>/dev/null)
  echo "$l" | sed 's/replay=[^ ]*//' | tr -d '\n'; echo " :: $s"
done
rm -rf evidence && mv .work/evidence_keep_tp evidence
python3 tools/extract.py > /dev/null
git -C /repo worktree remove --force "$W"
exit $RC
