#!/usr/bin/env python3
"""union_conflict.py <file>… — resolve git conflict hunks by keeping BOTH sides (ours first, then the lines of theirs not already present)."""
import re, sys
for p in sys.argv[1:]:
    s = open(p).read()
    def fix(m):
        ours, theirs = m.group(1).splitlines(), m.group(2).splitlines()
        return "\n".join(ours + [l for l in theirs if l not in ours]) + "\n"
    s2 = re.sub(r"<<<<<<< [^\n]*\n(.*?)=======\n(.*?)>>>>>>> [^\n]*\n", fix, s, flags=re.S)
    open(p, 'w').write(s2)
    print(p, 'resolved' if s2 != s else 'no markers')
