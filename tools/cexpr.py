"""Tiny recursive-descent translator from C / Python integer & boolean expressions to Lean 4 terms
over Nat/Bool.  Supports identifiers, integer literals (with _ separators), + - * / // %  & -K (K power of
two: round down), comparisons, && || ! / and or not, parentheses, max(a,b), min(a,b), len(x).
Subtraction is emitted as truncated Nat subtraction only where the caller says so (`nat_sub=True`);
otherwise it raises Untranslatable (we never silently change the meaning)."""
import re


class Untranslatable(Exception):
    pass


TOK = re.compile(r'\s*(?:(\d[\d_]*)|([A-Za-z_][A-Za-z_0-9\.]*)|(//|&&|\|\||<=|>=|==|!=|[-+*/%&<>!(),]))')


def tokenize(s):
    pos, out = 0, []
    s = s.strip()
    while pos < len(s):
        m = TOK.match(s, pos)
        if not m:
            raise Untranslatable(f'cannot tokenise {s[pos:]!r}')
        pos = m.end()
        if m.group(1):
            out.append(('num', int(m.group(1).replace('_', ''))))
        elif m.group(2):
            out.append(('id', m.group(2)))
        else:
            out.append(('op', m.group(3)))
    return out


class P:
    def __init__(self, toks, names, nat_sub=False):
        self.t, self.i, self.names, self.nat_sub = toks, 0, names, nat_sub

    def peek(self):
        return self.t[self.i] if self.i < len(self.t) else (None, None)

    def eat(self, kind=None, val=None):
        k, v = self.peek()
        if (kind and k != kind) or (val is not None and v != val):
            raise Untranslatable(f'expected {kind} {val}, got {k} {v}')
        self.i += 1
        return v

    # returns (lean_text, type) type in {'nat','bool'}
    def expr(self):
        return self.or_()

    def or_(self):
        l = self.and_()
        while self.peek() in (('op', '||'), ('id', 'or')):
            self.i += 1
            r = self.and_()
            l = (f'({self.b(l)} || {self.b(r)})', 'bool')
        return l

    def and_(self):
        l = self.not_()
        while self.peek() in (('op', '&&'), ('id', 'and')):
            self.i += 1
            r = self.not_()
            l = (f'({self.b(l)} && {self.b(r)})', 'bool')
        return l

    def not_(self):
        if self.peek() in (('op', '!'), ('id', 'not')):
            self.i += 1
            x = self.not_()
            return (f'(!{self.b(x)})', 'bool')
        return self.cmp()

    def b(self, x):
        if x[1] != 'bool':
            raise Untranslatable(f'boolean expected: {x}')
        return x[0]

    def n(self, x):
        if x[1] != 'nat':
            raise Untranslatable(f'number expected: {x}')
        return x[0]

    def cmp(self):
        l = self.band()
        k, v = self.peek()
        if k == 'op' and v in ('<', '<=', '>', '>=', '==', '!='):
            self.i += 1
            r = self.band()
            op = {'<': '<', '<=': '≤', '>': '>', '>=': '≥', '==': '=', '!=': '≠'}[v]
            return (f'decide ({self.n(l)} {op} {self.n(r)})', 'bool')
        return l

    def band(self):
        l = self.add()
        while self.peek() == ('op', '&'):
            self.i += 1
            # only `& -K`
            self.eat('op', '-')
            k = self.eat('num')
            if k & (k - 1):
                raise Untranslatable('mask is not a power of two')
            l = (f'({self.n(l)} / {k} * {k})', 'nat')
        return l

    def add(self):
        l = self.mul()
        while self.peek()[0] == 'op' and self.peek()[1] in ('+', '-'):
            op = self.eat()
            r = self.mul()
            if op == '-' and not self.nat_sub:
                raise Untranslatable('subtraction outside a declared-safe context')
            l = (f'({self.n(l)} {op} {self.n(r)})', 'nat')
        return l

    def mul(self):
        l = self.atom()
        while self.peek()[0] == 'op' and self.peek()[1] in ('*', '/', '//', '%'):
            op = self.eat()
            r = self.atom()
            op = '/' if op == '//' else op
            l = (f'({self.n(l)} {op} {self.n(r)})', 'nat')
        return l

    def atom(self):
        k, v = self.peek()
        if k == 'num':
            self.i += 1
            return (str(v), 'nat')
        if k == 'op' and v == '(':
            self.i += 1
            x = self.expr()
            self.eat('op', ')')
            return x
        if k == 'id':
            self.i += 1
            if v in ('max', 'min') and self.peek() == ('op', '('):
                self.i += 1
                a = self.expr()
                self.eat('op', ',')
                c = self.expr()
                self.eat('op', ')')
                return (f'({"Nat.max" if v == "max" else "Nat.min"} {self.n(a)} {self.n(c)})', 'nat')
            if v not in self.names:
                raise Untranslatable(f'unknown identifier {v}')
            return self.names[v]
        raise Untranslatable(f'unexpected token {k} {v}')


def translate(src, names, want, nat_sub=False):
    """names: identifier -> (lean_text, 'nat'|'bool')."""
    p = P(tokenize(src), names, nat_sub)
    x = p.expr()
    if p.i != len(p.t):
        raise Untranslatable(f'trailing tokens in {src!r}')
    if x[1] != want:
        raise Untranslatable(f'{src!r}: expected {want}, got {x[1]}')
    return x[0]
