"""Tiny recursive-descent translator from C / Python integer & boolean expressions to Lean 4 terms
over Nat/Bool.  Supports identifiers, integer literals (with _ separators), + - * / // %  & -K (K power of
two: round down), comparisons, && || ! / and or not, parentheses, max(a,b), min(a,b), len(x).
Subtraction is emitted as truncated Nat subtraction only where the caller says so (`nat_sub=True`);
otherwise it raises Untranslatable (we never silently change the meaning)."""
import re


class Untranslatable(Exception):
    pass


TOK = re.compile(r'\s*(?:(\d[\d_]*)|([A-Za-z_][A-Za-z_0-9\.]*)|(//|&&|\|\||<=|>=|==|!=|[-+*/%&<>!(),]))')


def tokenize(s):
    pos, out = 0, []
    s = s.strip()
    while pos < len(s):
        m = TOK.match(s, pos)
        if not m:
            raise Untranslatable(f'cannot tokenise {s[pos:]!r}')
        pos = m.end()
        if m.group(1):
            out.append(('num', int(m.group(1).replace('_', ''))))
        elif m.group(2):
            out.append(('id', m.group(2)))
        else:
            out.append(('op', m.group(3)))
    return out


class P:
    def __init__(self, toks, names, nat_sub=False):
        self.t, self.i, self.names, self.nat_sub = toks, 0, names, nat_sub

    def peek(self):
        return self.t[self.i] if self.i < len(self.t) else (None, None)

    def eat(self, kind=None, val=None):
        k, v = self.peek()
        if (kind and k != kind) or (val is not None and v != val):
            raise Untranslatable(f'expected {kind} {val}, got {k} {v}')
        self.i += 1
        return v

    # returns (lean_text, type) type in {'nat','bool'}
    def expr(self):
        return self.or_()

    def or_(self):
        l = self.and_()
        while self.peek() in (('op', '||'), ('id', 'or')):
            self.i += 1
            r = self.and_()
            l = (f'({self.b(l)} || {self.b(r)})', 'bool')
        return l

    def and_(self):
        l = self.not_()
        while self.peek() in (('op', '&&'), ('id', 'and')):
            self.i += 1
            r = self.not_()
            l = (f'({self.b(l)} && {self.b(r)})', 'bool')
        return l

    def not_(self):
        if self.peek() in (('op', '!'), ('id', 'not')):
            self.i += 1
            x = self.not_()
            return (f'(!{self.b(x)})', 'bool')
        return self.cmp()

    def b(self, x):
        if x[1] != 'bool':
            raise Untranslatable(f'boolean expected: {x}')
        return x[0]

    def n(self, x):
        if x[1] != 'nat':
            raise Untranslatable(f'number expected: {x}')
        return x[0]

    def cmp(self):
        l = self.band()
        k, v = self.peek()
        if k == 'op' and v in ('<', '<=', '>', '>=', '==', '!='):
            self.i += 1
            r = self.band()
            op = {'<': '<', '<=': '≤', '>': '>', '>=': '≥', '==': '=', '!=': '≠'}[v]
            return (f'decide ({self.n(l)} {op} {self.n(r)})', 'bool')
        return l

    def band(self):
        l = self.add()
        while self.peek() == ('op', '&'):
            self.i += 1
            # only `& -K`
            self.eat('op', '-')
            k = self.eat('num')
            if k & (k - 1):
                raise Untranslatable('mask is not a power of two')
            l = (f'({self.n(l)} / {k} * {k})', 'nat')
        return l

    def add(self):
        l = self.mul()
        while self.peek()[0] == 'op' and self.peek()[1] in ('+', '-'):
            op = self.eat()
            r = self.mul()
            if op == '-' and not self.nat_sub:
                raise Untranslatable('subtraction outside a declared-safe context')
            l = (f'({self.n(l)} {op} {self.n(r)})', 'nat')
        return l

    def mul(self):
        l = self.atom()
        while self.peek()[0] == 'op' and self.peek()[1] in ('*', '/', '//', '%'):
            op = self.eat()
            r = self.atom()
            op = '/' if op == '//' else op
            l = (f'({self.n(l)} {op} {self.n(r)})', 'nat')
        return l

    def atom(self):
        k, v = self.peek()
        if k == 'num':
            self.i += 1
            return (str(v), 'nat')
        if k == 'op' and v == '(':
            self.i += 1
            x = self.expr()
            self.eat('op', ')')
            return x
        if k == 'id':
            self.i += 1
            if v in ('max', 'min') and self.peek() == ('op', '('):
                self.i += 1
                a = self.expr()
                self.eat('op', ',')
                c = self.expr()
                self.eat('op', ')')
                return (f'({"Nat.max" if v == "max" else "Nat.min"} {self.n(a)} {self.n(c)})', 'nat')
            if v not in self.names:
                raise Untranslatable(f'unknown identifier {v}')
            return self.names[v]
        raise Untranslatable(f'unexpected token {k} {v}')


def translate(src, names, want, nat_sub=False):
    """names: identifier -> (lean_text, 'nat'|'bool')."""
    p = P(tokenize(src), names, nat_sub)
    x = p.expr()
    if p.i != len(p.t):
        raise Untranslatable(f'trailing tokens in {src!r}')
    if x[1] != want:
        raise Untranslatable(f'{src!r}: expected {want}, got {x[1]}')
    return x[0]


# ======================================================================================================================
# A small C/C++ statement parser and path enumerator (used for src/adapters.cpp).
#
# The chunker's cut rule used to be recognised by ONE regular expression over the whole body of `next_cut`, so any
# behaviour-preserving rewrite of its control flow (nested ifs, early returns, a `while` loop, renamed locals, a hoisted
# constant) made the rule "unrecognised".  Here the function body is parsed into statements and executed symbolically:
# locals are substituted by their values, every `if` becomes a node of a decision tree whose leaves are `return e`, the
# scan loop or the end of the block.  The guard functions the Lean model uses (`isTail`, `tailCut`, `waits`, …) are read
# off that tree, whatever statement shape produced it.
# ======================================================================================================================
CTOK = re.compile(r'\s*(?:(0[xX][0-9a-fA-F\']+|0[bB][01\']+|\d[\d\']*)([uUlLzZ]*)|([A-Za-z_][A-Za-z_0-9]*)|("(?:[^"\\\n]|\\.)*")|'
                  r'(::|->|\+\+|--|<<=|>>=|<<|>>|<=|>=|==|!=|&&|\|\||\+=|-=|\*=|/=|%=|&=|\|=|\^=|[-+*/%&|^~!<>=?:;,.(){}\[\]]))')


def c_tokens(src):
    src = re.sub(r'/\*.*?\*/', ' ', src, flags=re.S)
    src = re.sub(r'//[^\n]*', ' ', src)
    pos, out = 0, []
    src = src.rstrip()
    while pos < len(src):
        m = CTOK.match(src, pos)
        if not m:
            if not src[pos:].strip():
                break
            raise Untranslatable(f'cannot tokenise C at {src[pos:pos + 30]!r}')
        pos = m.end()
        if m.group(1):
            t = m.group(1).replace("'", '')
            v = int(t[2:], 16) if t[:2].lower() == '0x' else int(t[2:], 2) if t[:2].lower() == '0b' else int(t)
            out.append(('num', v))
        elif m.group(3):
            out.append(('id', m.group(3)))
        elif m.group(4):
            out.append(('str', m.group(4)))
        else:
            out.append(('op', m.group(5)))
    return out


TYPE_WORDS = {'const', 'unsigned', 'signed', 'long', 'short', 'int', 'char', 'bool', 'auto', 'size_t', 'ssize_t', 'uint64_t',
              'uint32_t', 'uint8_t', 'int64_t', 'int32_t', 'float', 'double', 'void', '__m128i', '__m128', 'static', 'constexpr',
              'volatile', 'register', 'ptrdiff_t', 'uintptr_t'}
CASTS = {'static_cast', 'reinterpret_cast', 'const_cast', 'dynamic_cast'}
ASSIGN_OPS = {'=', '+=', '-=', '*=', '/=', '%=', '&=', '|=', '^=', '<<=', '>>='}
BIN_PREC = [('||',), ('&&',), ('|',), ('^',), ('&',), ('==', '!='), ('<', '<=', '>', '>='), ('<<', '>>'), ('+', '-'), ('*', '/', '%')]


class CParser:
    """expressions → ('num', v) ('id', name) ('call', f, args) ('idx', a, i) ('member', a, name) ('un', op, x)
    ('bin', op, l, r) ('tern', c, a, b) ('assign', op, target, value) ('cast', x) ('post', op, x);
    statements → ('block', [..]) ('if', init|None, cond, then, else|None) ('for', init|None, cond|None, step|None, body)
    ('while', cond, body) ('do', body, cond) ('return', e|None) ('decl', [(name, init|None)]) ('expr', e) ('break',) ('continue',)"""
    def __init__(self, toks):
        self.t, self.i = toks, 0

    def peek(self, k=0):
        return self.t[self.i + k] if self.i + k < len(self.t) else (None, None)

    def at(self, val, k=0):
        return self.peek(k) == ('op', val)

    def eat(self, kind=None, val=None):
        k, v = self.peek()
        if (kind is not None and k != kind) or (val is not None and v != val):
            raise Untranslatable(f'C: expected {kind or ""} {val or ""}, got {k} {v}')
        self.i += 1
        return v

    # ---- types / declarations
    def try_type(self):
        """consume a type if one starts here (no declarator); returns True/False, position restored on False"""
        save = self.i
        words = 0
        while True:
            k, v = self.peek()
            if k == 'id' and (v in TYPE_WORDS or (words == 0) or self.at('::', -1)):
                # a (possibly qualified) type name
                if v not in TYPE_WORDS and words > 0 and not self.at('::', -1):
                    break
                self.i += 1
                if v not in ('const', 'static', 'constexpr', 'volatile', 'register'):
                    words += 1
                if self.at('::'):
                    self.i += 1
                    words -= 1
                    continue
                if self.at('<'):
                    depth = 0
                    while True:
                        k2, v2 = self.peek()
                        if k2 is None:
                            self.i = save
                            return False
                        self.i += 1
                        if (k2, v2) == ('op', '<'):
                            depth += 1
                        elif (k2, v2) == ('op', '>'):
                            depth -= 1
                            if depth == 0:
                                break
                        elif (k2, v2) == ('op', '>>'):
                            depth -= 2
                            if depth <= 0:
                                break
                        elif (k2, v2) in (('op', ';'), ('op', '{'), ('op', '}')):
                            self.i = save
                            return False
                continue
            break
        if words == 0:
            self.i = save
            return False
        while self.peek() in (('op', '*'), ('op', '&'), ('id', 'const')):
            self.i += 1
        k, v = self.peek()
        if k == 'id' and v not in TYPE_WORDS and self.peek(1) in (('op', '='), ('op', ','), ('op', ';'), ('op', '{'), ('op', '(')):
            # `name(` could be a call statement `f(x);` — only a declaration if a type with ≥1 real word preceded it
            if self.peek(1) == ('op', '(') and self.i - save == 1:
                self.i = save
                return False
            return True
        self.i = save
        return False

    def decl_rest(self):
        """after the type: declarators up to ';' (consumed)"""
        items = []
        while True:
            while self.peek() in (('op', '*'), ('op', '&'), ('id', 'const')):
                self.i += 1
            name = self.eat('id')
            init = None
            if self.at('='):
                self.i += 1
                init = self.assign()
            elif self.at('{'):
                self.i += 1
                init = self.assign() if not self.at('}') else ('num', 0)
                self.eat('op', '}')
            elif self.at('('):
                self.i += 1
                init = self.assign() if not self.at(')') else ('num', 0)
                self.eat('op', ')')
            items.append((name, init))
            if self.at(','):
                self.i += 1
                continue
            self.eat('op', ';')
            return ('decl', items)

    # ---- statements
    def stmt(self):
        k, v = self.peek()
        if (k, v) == ('op', '{'):
            self.i += 1
            body = []
            while not self.at('}'):
                body.append(self.stmt())
            self.i += 1
            return ('block', body)
        if (k, v) == ('op', ';'):
            self.i += 1
            return ('block', [])
        if k == 'id' and v == 'if':
            self.i += 1
            if self.peek() == ('id', 'constexpr'):
                self.i += 1
            self.eat('op', '(')
            init = None
            save = self.i
            if self.try_type():
                init = self.decl_rest()          # consumes the ';'
            else:
                self.i = save
                # `if (x = f(); cond)` — an expression init
                e = self.expr()
                if self.at(';'):
                    self.i += 1
                    init = ('expr', e)
                else:
                    self.i = save
            cond = self.expr()
            self.eat('op', ')')
            then = self.stmt()
            els = None
            if self.peek() == ('id', 'else'):
                self.i += 1
                els = self.stmt()
            return ('if', init, cond, then, els)
        if k == 'id' and v == 'for':
            self.i += 1
            self.eat('op', '(')
            init = None
            if self.at(';'):
                self.i += 1
            elif self.try_type():
                init = self.decl_rest()
            else:
                init = ('expr', self.expr())
                self.eat('op', ';')
            cond = None if self.at(';') else self.expr()
            self.eat('op', ';')
            step = None if self.at(')') else self.expr()
            self.eat('op', ')')
            return ('for', init, cond, step, self.stmt())
        if k == 'id' and v == 'while':
            self.i += 1
            self.eat('op', '(')
            cond = self.expr()
            self.eat('op', ')')
            return ('while', cond, self.stmt())
        if k == 'id' and v == 'do':
            self.i += 1
            body = self.stmt()
            self.eat('id', 'while')
            self.eat('op', '(')
            cond = self.expr()
            self.eat('op', ')')
            self.eat('op', ';')
            return ('do', body, cond)
        if k == 'id' and v == 'return':
            self.i += 1
            e = None if self.at(';') else self.expr()
            self.eat('op', ';')
            return ('return', e)
        if k == 'id' and v in ('break', 'continue'):
            self.i += 1
            self.eat('op', ';')
            return (v,)
        if k == 'id' and v == 'throw':
            self.i += 1
            e = None if self.at(';') else self.expr()
            self.eat('op', ';')
            return ('throw', e)
        if self.try_type():
            return self.decl_rest()
        e = self.expr()
        self.eat('op', ';')
        return ('expr', e)

    # ---- expressions
    def expr(self):
        e = self.assign()
        while self.at(','):
            self.i += 1
            e = ('bin', ',', e, self.assign())
        return e

    def assign(self):
        l = self.ternary()
        k, v = self.peek()
        if k == 'op' and v in ASSIGN_OPS:
            self.i += 1
            return ('assign', v, l, self.assign())
        return l

    def ternary(self):
        c = self.binary(0)
        if self.at('?'):
            self.i += 1
            a = self.assign()
            self.eat('op', ':')
            b = self.assign()
            return ('tern', c, a, b)
        return c

    def binary(self, level):
        if level == len(BIN_PREC):
            return self.unary()
        l = self.binary(level + 1)
        while self.peek()[0] == 'op' and self.peek()[1] in BIN_PREC[level]:
            op = self.eat()
            r = self.binary(level + 1)
            l = ('bin', op, l, r)
        return l

    def unary(self):
        k, v = self.peek()
        if k == 'op' and v in ('!', '-', '+', '~', '&', '*', '++', '--'):
            self.i += 1
            x = self.unary()
            if v == '-' and x[0] == 'num':
                return ('un', '-', x)
            if v == '+':
                return x
            return ('un', v, x)
        if k == 'op' and v == '(':
            # C-style cast `(type) e`
            save = self.i
            self.i += 1
            if self.peek()[0] == 'id' and self.peek()[1] in TYPE_WORDS:
                depth = 1
                while depth:
                    kk, vv = self.peek()
                    if kk is None:
                        break
                    self.i += 1
                    if (kk, vv) == ('op', '('):
                        depth += 1
                    elif (kk, vv) == ('op', ')'):
                        depth -= 1
                return ('cast', self.unary())
            self.i = save
        return self.postfix()

    def postfix(self):
        e = self.primary()
        while True:
            if self.at('('):
                self.i += 1
                args = []
                while not self.at(')'):
                    args.append(self.assign())
                    if self.at(','):
                        self.i += 1
                self.i += 1
                e = ('call', e, tuple(args))
            elif self.at('['):
                self.i += 1
                i = self.expr()
                self.eat('op', ']')
                e = ('idx', e, i)
            elif self.at('.') or self.at('->'):
                self.i += 1
                e = ('member', e, self.eat('id'))
            elif self.at('++') or self.at('--'):
                e = ('post', self.eat(), e)
            else:
                return e

    def primary(self):
        k, v = self.peek()
        if k == 'num':
            self.i += 1
            return ('num', v)
        if k == 'str':
            self.i += 1
            while self.peek()[0] == 'str':       # adjacent literals concatenate
                self.i += 1
            return ('strlit', v)
        if k == 'op' and v == '(':
            self.i += 1
            e = self.expr()
            self.eat('op', ')')
            return e
        if k == 'op' and v == '[':
            # lambda: [captures](params) -> type { body }
            depth = 0
            while True:
                kk, vv = self.peek()
                if kk is None:
                    raise Untranslatable('C: unterminated lambda capture')
                self.i += 1
                depth += {'[': 1, ']': -1}.get(vv, 0) if kk == 'op' else 0
                if depth == 0:
                    break
            params = []
            if self.at('('):
                self.i += 1
                cur = []
                depth = 1
                while depth:
                    kk, vv = self.peek()
                    if kk is None:
                        raise Untranslatable('C: unterminated lambda parameters')
                    self.i += 1
                    if kk == 'op' and vv == '(':
                        depth += 1
                    elif kk == 'op' and vv == ')':
                        depth -= 1
                        if depth == 0:
                            break
                    if kk == 'op' and vv == ',' and depth == 1:
                        params.append(cur)
                        cur = []
                    else:
                        cur.append((kk, vv))
                if cur:
                    params.append(cur)
            names = []
            for prm in params:
                ids = [vv for kk, vv in prm if kk == 'id']
                if not ids:
                    raise Untranslatable('C: lambda parameter without a name')
                names.append(ids[-1])
            while not self.at('{'):
                if self.peek()[0] is None:
                    raise Untranslatable('C: lambda without a body')
                self.i += 1       # mutable / noexcept / -> type
            body = self.stmt()
            return ('lambda', tuple(names), body[1])
        if k == 'id':
            self.i += 1
            if v in CASTS or (v in TYPE_WORDS and self.at('(')):
                if self.at('<'):
                    depth = 0
                    while True:
                        kk, vv = self.peek()
                        if kk is None:
                            raise Untranslatable('C: unterminated cast')
                        self.i += 1
                        if (kk, vv) == ('op', '<'):
                            depth += 1
                        elif (kk, vv) == ('op', '>'):
                            depth -= 1
                            if depth == 0:
                                break
                self.eat('op', '(')
                e = self.expr()
                self.eat('op', ')')
                return ('cast', e)
            if v in ('true', 'false'):
                return ('num', 1 if v == 'true' else 0)
            name = v
            while self.at('::'):
                self.i += 1
                name = self.eat('id')           # keep the last component (std::max → max)
            return ('id', name)
        raise Untranslatable(f'C: unexpected token {k} {v}')


def c_function(src, name, cls=None):
    """(parameter names, body statements) of the definition `… [cls::]name(params) { … }`"""
    src = re.sub(r'/\*.*?\*/', ' ', src, flags=re.S)
    src = re.sub(r'//[^\n]*', ' ', src)
    pat = re.compile((re.escape(cls) + r'\s*::\s*' if cls else r'\b') + re.escape(name) + r'\s*\(')
    for m in pat.finditer(src):
        # parameter list
        depth, j = 1, m.end()
        while j < len(src) and depth:
            depth += {'(': 1, ')': -1}.get(src[j], 0)
            j += 1
        params_txt = src[m.end():j - 1]
        k = j
        while k < len(src) and src[k] in ' \t\r\n':
            k += 1
        if src.startswith('const', k):
            k += 5
            while k < len(src) and src[k] in ' \t\r\n':
                k += 1
        if k < len(src) and src[k] == ':' and not src.startswith('::', k):
            # constructor: skip the member initialiser list
            depth = 0
            while k < len(src) and not (src[k] == '{' and depth == 0 and src[k - 1] not in '=,(' ):
                depth += {'(': 1, ')': -1}.get(src[k], 0)
                if src[k] == ';':
                    break
                k += 1
        if k >= len(src) or src[k] != '{':
            continue
        depth, e = 1, k + 1
        while e < len(src) and depth:
            depth += {'{': 1, '}': -1}.get(src[e], 0)
            e += 1
        body = src[k:e]
        params = []
        for part in [x for x in split_top(params_txt) if x.strip()]:
            part = part.split('=')[0].strip()
            mm = re.search(r'([A-Za-z_]\w*)\s*(?:\[\s*\])?$', part)
            params.append(mm.group(1) if mm else None)
        st = CParser(c_tokens(body)).stmt()
        return params, st[1]
    return None


def split_top(s):
    out, depth, cur = [], 0, ''
    for ch in s:
        if ch in '(<[':
            depth += 1
        elif ch in ')>]':
            depth -= 1
        if ch == ',' and depth == 0:
            out.append(cur)
            cur = ''
        else:
            cur += ch
    out.append(cur)
    return out


# ---- symbolic execution: decision trees
_HELPERS = {}     # name -> (params, body) of the small functions of the translation unit that calls may be replaced by
_CONSTS = {}      # file-scope integer constants (constexpr / const / #define)


def c_file_consts(src):
    """{name: ('num', v)} of the integer constants defined at file scope: `static constexpr size_t N = 4;`, `#define N 4`"""
    out = {}
    s = re.sub(r'/\*.*?\*/', ' ', src, flags=re.S)
    s = re.sub(r'//[^\n]*', ' ', s)
    found = [(m.group(1), m.group(2)) for m in re.finditer(r'^[ \t]*#[ \t]*define[ \t]+([A-Za-z_]\w*)[ \t]+([^\n]+)$', s, flags=re.M)]
    found += [(m.group(1), m.group(2)) for m in re.finditer(
        r'(?:^|[;{}])\s*(?:static\s+|inline\s+)*(?:constexpr|const)\s+(?:static\s+)?[\w:]+(?:\s+[\w:]+)*\s+([A-Za-z_]\w*)\s*=\s*([^;{}]+);', s)]
    for name, val in found:
        try:
            e = c_fold(c_subst0(CParser(c_tokens(val)).expr(), out))
        except Untranslatable:
            continue
        if e[0] == 'num' or (e[0] == 'un' and e[1] == '-' and e[2][0] == 'num'):
            out[name] = e
    return out


def c_fold(e):
    """integer constant folding: 4 - 1 → 3, (x + 4) - 1 → x + 3, ~3 → -4"""
    if not isinstance(e, tuple) or not e:
        return e
    if e[0] == 'bin':
        l, r = c_fold(e[2]), c_fold(e[3])
        op = e[1]
        if l[0] == 'num' and r[0] == 'num':
            a, b = l[1], r[1]
            v = {'+': a + b, '-': a - b if a >= b else None, '*': a * b, '/': a // b if b else None, '%': a % b if b else None}.get(op)
            if v is not None:
                return ('num', v)
        if op in ('+', '-') and r[0] == 'num' and l[0] == 'bin' and l[1] in ('+', '-') and l[3][0] == 'num':
            # (x ± a) ± b
            a = l[3][1] if l[1] == '+' else -l[3][1]
            b = r[1] if op == '+' else -r[1]
            if a + b >= 0:
                return ('bin', '+', l[2], ('num', a + b)) if a + b else l[2]
        if op == '+' and l[0] == 'num' and r[0] != 'num':
            return c_fold(('bin', '+', r, l)) if r[0] == 'bin' and r[1] in ('+', '-') and r[3][0] == 'num' else ('bin', op, l, r)
        return ('bin', op, l, r)
    if e[0] == 'un':
        x = c_fold(e[2])
        if e[1] == '~' and x[0] == 'num':
            return ('un', '-', ('num', x[1] + 1))
        return ('un', e[1], x)
    return tuple(c_fold(a) if isinstance(a, tuple) else a for a in e)


def c_helpers(src):
    """every function definition `T name(params) { … }` / `T cls::name(params) { … }` of the source whose body could be parsed"""
    out = {}
    s = re.sub(r'/\*.*?\*/', ' ', src, flags=re.S)
    s = re.sub(r'//[^\n]*', ' ', s)
    for m in re.finditer(r'\b([A-Za-z_]\w*)\s*\(([^(){};]*)\)\s*(?:const\s*)?(?:noexcept\s*)?\{', s):
        name = m.group(1)
        if name in ('if', 'for', 'while', 'switch', 'catch', 'return', 'sizeof') or name in out:
            continue
        try:
            fn = c_function(s[m.start():], name)
        except Untranslatable:
            continue
        if fn is not None and None not in fn[0]:
            out[name] = fn
    return out


def _tree_expr(t):
    if t[0] == 'ret' and t[1] is not None:
        return t[1]
    if t[0] == 'if':
        return ('tern', t[1], _tree_expr(t[2]), _tree_expr(t[3]))
    raise Untranslatable('C: helper does not return a value on every path')


def _pure(e):
    """no calls other than max / min"""
    if not isinstance(e, tuple):
        return True
    if e and e[0] == 'call':
        if not (e[1][0] == 'id' and e[1][1] in ('max', 'min')):
            return False
    return all(_pure(a) for a in e if isinstance(a, tuple))


def c_inline(e, depth=0):
    """calls of small pure helper functions of the same file replaced by their value"""
    if not isinstance(e, tuple) or not e:
        return e
    if e[0] == 'call':
        f = e[1]
        name = f[1] if f[0] == 'id' else f[2] if (f[0] == 'member' and f[1] == ('id', 'this')) else None
        args = tuple(c_inline(a, depth) for a in e[2])
        if name in _HELPERS and depth < 4:
            params, body = _HELPERS[name]
            if len(params) == len(args):
                try:
                    holes = [('id', f'_A_{depth}_{i}') for i in range(len(args))]
                    v = _tree_expr(CExec().run(body, dict(zip(params, holes))))
                    v = c_inline(v, depth + 1)
                    if _pure(v):
                        for h, a in zip(holes, args):
                            v = c_replace(v, h, a)
                        return v
                except Untranslatable:
                    pass
        return ('call', f, args)
    return tuple(c_inline(a, depth) if isinstance(a, tuple) else a for a in e)


def c_subst(e, env):
    return c_fold(c_inline(c_subst0(e, env)))


def c_subst0(e, env):
    if e is None:
        return None
    k = e[0]
    if k == 'num':
        return e
    if k == 'id':
        return env[e[1]] if e[1] in env else _CONSTS.get(e[1], e)
    if k == 'lambda':
        return ('closure', e[1], e[2], tuple(sorted((kk, vv) for kk, vv in env.items() if isinstance(kk, str))))
    if k == 'call':
        if e[1][0] == 'id' and e[1][1] in env and env[e[1][1]][0] == 'closure':
            _c, params, body, cenv = env[e[1][1]]
            args = tuple(c_subst0(a, env) for a in e[2])
            if len(params) == len(args):
                inner = dict(cenv)
                inner.update(zip(params, args))
                return _tree_expr(CExec().run(list(body), inner))
        return ('call', c_subst0(e[1], env) if e[1][0] != 'id' else e[1], tuple(c_subst0(a, env) for a in e[2]))
    if k == 'idx':
        return ('idx', c_subst0(e[1], env), c_subst0(e[2], env))
    if k == 'member':
        return ('member', c_subst0(e[1], env), e[2])
    if k == 'un':
        x = c_subst0(e[2], env)
        if e[1] == '~' and x[0] == 'num':
            return ('un', '-', ('num', x[1] + 1))       # ~3 == -4 (mask spelling)
        return ('un', e[1], x)
    if k == 'cast':
        return c_subst0(e[1], env)          # integer / pointer casts are transparent for what is extracted here
    if k == 'bin':
        return ('bin', e[1], c_subst0(e[2], env), c_subst0(e[3], env))
    if k == 'tern':
        return ('tern', c_subst0(e[1], env), c_subst0(e[2], env), c_subst0(e[3], env))
    raise Untranslatable(f'C: side effect inside an expression ({k})')


C_NEG = {'<': '>=', '>=': '<', '>': '<=', '<=': '>', '==': '!=', '!=': '=='}
TRUE, FALSE = ('num', 1), ('num', 0)


def c_not(e):
    if e == TRUE:
        return FALSE
    if e == FALSE:
        return TRUE
    if e[0] == 'un' and e[1] == '!':
        return e[2]
    if e[0] == 'bin' and e[1] in C_NEG:
        return ('bin', C_NEG[e[1]], e[2], e[3])
    return ('un', '!', e)


def c_and(a, b):
    if a == FALSE or b == FALSE:
        return FALSE
    if a == TRUE:
        return b
    if b == TRUE:
        return a
    return ('bin', '&&', a, b)


def c_or(a, b):
    if a == TRUE or b == TRUE:
        return TRUE
    if a == FALSE:
        return b
    if b == FALSE:
        return a
    if a == b:
        return a
    return ('bin', '||', a, b)


def c_simp(e):
    """constant folding of Boolean structure (after a parameter was fixed)"""
    if e[0] == 'un' and e[1] == '!':
        x = c_simp(e[2])
        return c_not(x) if x in (TRUE, FALSE) or (x[0] == 'un' and x[1] == '!') else ('un', '!', x)
    if e[0] == 'bin' and e[1] == '&&':
        return c_and(c_simp(e[2]), c_simp(e[3]))
    if e[0] == 'bin' and e[1] == '||':
        return c_or(c_simp(e[2]), c_simp(e[3]))
    return e


def c_replace(e, old, new):
    if e == old:
        return new
    if not isinstance(e, tuple):
        return e
    return tuple(c_replace(a, old, new) if isinstance(a, tuple) else a for a in e)


class CExec:
    """statements → decision tree: ('if', cond, T, F) | ('ret', e) | ('loop', stmt, env, rest) | ('fall', env) |
    ('continue', env) | ('break', env) | ('throw',)"""
    def __init__(self, stop_at_loop=True):
        self.stop_at_loop = stop_at_loop
        self.nodes = 0

    def assign(self, target, op, value, env):
        if target[0] != 'id':
            raise Untranslatable('C: assignment to something that is not a local')
        v = c_subst(value, env)
        if op != '=':
            v = ('bin', op[:-1], env.get(target[1], target), v)
        env = dict(env)
        env[target[1]] = v
        return env

    def effect(self, e, env):
        """expression statement: assignments / ++ / -- on locals; calls are dropped"""
        if e[0] == 'assign':
            return self.assign(e[2], e[1], e[3], env)
        if e[0] in ('post', 'un') and e[1] in ('++', '--'):
            return self.assign(e[2], '+=' if e[1] == '++' else '-=', ('num', 1), env)
        if e[0] == 'bin' and e[1] == ',':
            return self.effect(e[3], self.effect(e[2], env))
        if e[0] == 'call':
            return env
        raise Untranslatable(f'C: expression statement {e[0]}')

    def ret(self, e):
        """`return c ? a : b` is `if (c) return a; else return b;`"""
        if e is not None and e[0] == 'tern':
            c = c_simp(e[1])
            if c == TRUE:
                return self.ret(e[2])
            if c == FALSE:
                return self.ret(e[3])
            return ('if', c, self.ret(e[2]), self.ret(e[3]))
        return ('ret', e)

    def run(self, stmts, env):
        self.nodes += 1
        if self.nodes > 4000:
            raise Untranslatable('C: too many paths')
        if not stmts:
            return ('fall', env)
        s, rest = stmts[0], list(stmts[1:])
        k = s[0]
        if k == 'block':
            return self.run(list(s[1]) + rest, env)
        if k == 'decl':
            env = dict(env)
            for name, init in s[1]:
                if init is not None:
                    env[name] = c_subst(init, env)
                else:
                    env.pop(name, None)
            return self.run(rest, env)
        if k == 'expr':
            return self.run(rest, self.effect(s[1], env))
        if k == 'return':
            return self.ret(c_subst(s[1], env) if s[1] is not None else None)
        if k == 'throw':
            return ('throw',)
        if k in ('break', 'continue'):
            return (k, env)
        if k == 'if':
            _k, init, cond, then, els = s
            if init is not None:
                if init[0] == 'decl':
                    env = dict(env)
                    for name, iv in init[1]:
                        env[name] = c_subst(iv, env) if iv is not None else ('id', name)
                else:
                    env = self.effect(init[1], env)
            # an assignment used as the condition: `if ((k = key(…)) > best)`
            c = c_simp(c_subst(cond, env))
            if c == TRUE:
                return self.run([then] + rest, env)
            if c == FALSE:
                return self.run(([els] if els is not None else []) + rest, env)
            return ('if', c, self.run([then] + rest, env), self.run(([els] if els is not None else []) + rest, env))
        if k in ('for', 'while', 'do'):
            if self.stop_at_loop:
                return ('loop', s, env, rest)
            raise Untranslatable('C: nested loop')
        raise Untranslatable(f'C: statement {k}')


def c_resolve_tern(e, cond, value):
    """e with every `cond ? a : b` replaced by a (value True) or b (value False)"""
    if not isinstance(e, tuple) or not e:
        return e
    if e[0] == 'tern' and e[1] == cond:
        return c_resolve_tern(e[2] if value else e[3], cond, value)
    return tuple(c_resolve_tern(a, cond, value) if isinstance(a, tuple) else a for a in e)


def _first_tern(e):
    if not isinstance(e, tuple) or not e:
        return None
    if e[0] == 'tern':
        return e[1]
    for a in e:
        if isinstance(a, tuple):
            c = _first_tern(a)
            if c is not None:
                return c
    return None


def tree_split_selects(t, names, depth=0):
    """branch-free selects in the values of the variables `names` at the leaves (`x = c ? a : x`) become branches of the tree"""
    if t[0] == 'if':
        return ('if', t[1], tree_split_selects(t[2], names, depth), tree_split_selects(t[3], names, depth))
    if t[0] not in ('fall', 'continue', 'break') or depth > 8:
        return t
    env = t[1]
    for n in names:
        c = _first_tern(env.get(n)) if n in env else None
        if c is not None:
            yes = dict(env)
            no = dict(env)
            for k, v in env.items():
                yes[k] = c_resolve_tern(v, c, True)
                no[k] = c_resolve_tern(v, c, False)
            return ('if', c, tree_split_selects((t[0], yes), names, depth + 1), tree_split_selects((t[0], no), names, depth + 1))
    return t


def tree_map_leaves(t, f):
    if t[0] == 'if':
        return ('if', t[1], tree_map_leaves(t[2], f), tree_map_leaves(t[3], f))
    return f(t)


def tree_leaves(t):
    if t[0] == 'if':
        yield from tree_leaves(t[2])
        yield from tree_leaves(t[3])
    else:
        yield t


def tree_fix(t, var, value):
    """the tree with identifier `var` fixed to a constant (conditions folded, dead branches removed)"""
    if t[0] != 'if':
        return t
    c = c_simp(c_replace(t[1], ('id', var), value))
    if c == TRUE:
        return tree_fix(t[2], var, value)
    if c == FALSE:
        return tree_fix(t[3], var, value)
    return ('if', c, tree_fix(t[2], var, value), tree_fix(t[3], var, value))


def tree_cond(t, pred):
    """condition under which the tree ends in a leaf satisfying pred"""
    if t[0] != 'if':
        return TRUE if pred(t) else FALSE
    a, b = tree_cond(t[2], pred), tree_cond(t[3], pred)
    if a == b:
        return a
    return c_or(c_and(t[1], a), c_and(c_not(t[1]), b))


def tree_value(t, pred, val):
    """nested conditional expression giving val(leaf) on the leaves satisfying pred (the other leaves are unreachable under
    tree_cond); None if no leaf satisfies pred"""
    if t[0] != 'if':
        return val(t) if pred(t) else None
    a, b = tree_value(t[2], pred, val), tree_value(t[3], pred, val)
    if a is None:
        return b
    if b is None:
        return a
    if a == b:
        return a
    c = t[1]
    if (c[0] == 'bin' and c[1] in ('>=', '>', '!=')) or (c[0] == 'un' and c[1] == '!'):
        # one spelling for a test and its negation: `<`, `<=`, `==` with the branches in the matching order
        return ('tern', c_not(c), b, a)
    return ('tern', c, a, b)


def c_unparse(e):
    k = e[0]
    if k == 'num':
        return str(e[1])
    if k == 'id':
        return e[1]
    if k == 'un':
        return f'{e[1]}{c_unparse(e[2])}' if e[2][0] in ('num', 'id') else f'{e[1]}({c_unparse(e[2])})'
    if k == 'bin':
        return f'({c_unparse(e[2])} {e[1]} {c_unparse(e[3])})'
    if k == 'call' and e[1][0] == 'id' and e[1][1] in ('max', 'min') and len(e[2]) == 2:
        return f'{e[1][1]}({c_unparse(e[2][0])}, {c_unparse(e[2][1])})'
    raise Untranslatable(f'C: cannot express {k} as an integer expression')


def c_to_lean(e, names, want):
    """C expression tree → Lean term (same output conventions as `translate`); conditional expressions become if-then-else"""
    if e[0] == 'tern':
        return f'if {c_to_lean(e[1], names, "bool")} then {c_to_lean(e[2], names, want)} else {c_to_lean(e[3], names, want)}'
    if e in (TRUE, FALSE) and want == 'bool':
        return 'true' if e == TRUE else 'false'
    return translate(c_unparse(e), names, want)


# ---- the chunker's cut rule
def _member_names(src):
    """names of the members holding the minimum / maximum length (constructor `(size_t a, size_t b, …) : x(a), y(b)`)"""
    s = re.sub(r'/\*.*?\*/', ' ', src, flags=re.S)
    s = re.sub(r'//[^\n]*', ' ', s)
    m = re.search(r'gclmulchunker\s*\(\s*size_t\s+(\w+)\s*,\s*size_t\s+(\w+)\s*,[^)]*\)\s*:\s*([^{]*)\{', s)
    if m:
        inits = dict((b, a) for a, b in re.findall(r'(\w+)\s*[({]\s*(\w+)\s*[)}]', m.group(3)))
        if m.group(1) in inits and m.group(2) in inits:
            return inits[m.group(1)], inits[m.group(2)]
    return 'min_length', 'max_length'


def analyse_next_cut(src):
    """Lean bodies of the guard functions of `gclmulchunker::next_cut`, from its control flow:
    {'scanStart', 'scanStride', 'scanInitIndex', 'scanInitValue', 'isTail', 'tailCut', 'waits', 'waitRet', 'scanContinue',
     'better', 'needForce', 'forced'}.  Raises Untranslatable when the function is not of the form
    "early returns that depend on (final, size, min, max); an arg-max scan over i = start, start+stride, … ; a forced
    minimum"."""
    fn = c_function(src, 'next_cut', 'gclmulchunker')
    if fn is None:
        raise Untranslatable('next_cut: definition not found')
    params, body = fn
    if len(params) != 2 or None in params:
        raise Untranslatable('next_cut: expected (buffer, final)')
    _HELPERS.clear()
    _CONSTS.clear()
    _CONSTS.update(c_file_consts(src))
    _HELPERS.update({k: v for k, v in c_helpers(src).items() if k != 'next_cut'})
    pbuf, pfinal = params
    mn, mx = _member_names(src)
    # the size of the buffer, however it is reached: <buffer>.request().size
    size_leaf = ('member', ('call', ('member', ('id', pbuf), 'request'), ()), 'size')
    data_leaf = ('member', ('call', ('member', ('id', pbuf), 'request'), ()), 'ptr')

    def norm(e):
        e = c_replace(e, size_leaf, ('id', '_L_size'))
        e = c_replace(e, data_leaf, ('id', '_L_data'))
        e = c_replace(e, ('id', pfinal), ('id', '_L_final'))
        e = c_replace(e, ('id', mn), ('id', '_L_min'))
        e = c_replace(e, ('id', mx), ('id', '_L_max'))
        return e
    names = {'_L_size': ('size', 'nat'), '_L_max': ('max', 'nat'), '_L_min': ('min', 'nat'), '_L_final': ('final', 'bool'),
             '_L_i': ('i', 'nat'), '_L_k': ('k', 'nat'), '_L_best': ('best', 'nat'), '_L_mi': ('mi', 'nat')}
    ex = CExec()
    tree = ex.run(body, {})
    tree = _norm_tree(tree, norm)
    loops = [l for l in tree_leaves(tree) if l[0] == 'loop']
    if not loops or any(l[0] not in ('loop', 'ret') for l in tree_leaves(tree)):
        raise Untranslatable('next_cut: a path neither returns nor reaches the scan loop')
    # every way into the loop must see the same loop statement and the same initial state
    loop_stmt, rest = loops[0][1], loops[0][3]
    if any(l[1] is not loop_stmt for l in loops):
        raise Untranslatable('next_cut: more than one scan loop')
    out = {}

    def early(t):
        return t[0] == 'ret'
    for val, cname, vname, prefix in ((TRUE, 'isTail', 'tailCut', 'final'), (FALSE, 'waits', 'waitRet', '(!final)')):
        t = tree_fix(tree, '_L_final', val)
        cond = tree_cond(t, early)
        value = tree_value(t, early, lambda l: l[1])
        if value is None:
            raise Untranslatable(f'next_cut: no early return when final = {val[1]}')
        out[cname] = f'({prefix} && {c_to_lean(cond, names, "bool")})'
        out[vname] = c_to_lean(value, names, 'nat')
    # ---- the scan loop
    kind = loop_stmt[0]
    envs = [l[2] for l in loops]
    if kind == 'for':
        _k, init, cond, step, lbody = loop_stmt
        lbody = [lbody]
        pre = CExec()
        envs2 = []
        for env in envs:
            if init is None:
                envs2.append(env)
            elif init[0] == 'decl':
                e2 = dict(env)
                for name, iv in init[1]:
                    if iv is not None:
                        e2[name] = c_subst(iv, e2)
                envs2.append(e2)
            else:
                envs2.append(pre.effect(init[1], env))
        envs = envs2
    elif kind == 'while':
        _k, cond, lb = loop_stmt
        stmts = list(lb[1]) if lb[0] == 'block' else [lb]
        if not stmts or stmts[-1][0] != 'expr':
            raise Untranslatable('next_cut: while loop without a trailing step')
        step = stmts[-1][1]
        lbody = stmts[:-1]
        if any(_has_stmt(s, 'continue') for s in lbody):
            raise Untranslatable('next_cut: continue inside a while loop skips the step')
    else:
        raise Untranslatable('next_cut: do-while scan loop')
    if cond is None or step is None:
        raise Untranslatable('next_cut: scan loop without condition / step')
    # loop variable and stride
    if step is not None and step[0] == 'assign':
        step = ('assign', step[1], step[2], c_subst(step[3], {k: v for k, v in envs[0].items() if v[0] == 'num'}) if step[3][0] != 'bin' else
                c_fold(c_replace_ids(step[3], {k: v for k, v in envs[0].items() if v[0] == 'num' and k != step[2][1]})))
    if step[0] == 'assign' and step[2][0] == 'id' and step[1] == '+=' and step[3][0] == 'num':
        ivar, stride = step[2][1], step[3][1]
    elif step[0] == 'assign' and step[2][0] == 'id' and step[1] == '=' and step[3][0] == 'bin' and step[3][1] == '+' \
            and ('id', step[2][1]) in (step[3][2], step[3][3]) and (step[3][3] if step[3][2] == ('id', step[2][1]) else step[3][2])[0] == 'num':
        ivar = step[2][1]
        stride = (step[3][3] if step[3][2] == ('id', ivar) else step[3][2])[1]
    elif step[0] in ('post', 'un') and step[1] == '++' and step[2][0] == 'id':
        ivar, stride = step[2][1], 1
    else:
        raise Untranslatable('next_cut: step of the scan loop is not `i += constant`')
    # variables the loop body writes: the running arg-max (index, value)
    written = _assigned(lbody) - {ivar}
    starts = {repr(env.get(ivar)) for env in envs}
    if len(starts) != 1 or envs[0].get(ivar, ('x',))[0] != 'num':
        raise Untranslatable('next_cut: scan start is not a constant')
    out['scanStart'] = str(envs[0][ivar][1])
    out['scanStride'] = str(stride)
    relevant = (set(_ids(cond)) | {n for st_ in lbody + list(rest) for n in _ids(st_)}) - {ivar}
    for env in envs[1:]:
        if any(repr(env.get(v)) != repr(envs[0].get(v)) for v in relevant):
            raise Untranslatable('next_cut: the scan loop is entered with different local values')
    body_tree = CExec(stop_at_loop=False).run(lbody, dict(envs[0], **{ivar: ('id', '_L_i'), **{w: ('id', '_L_w_' + w) for w in written}}))
    body_tree = tree_split_selects(body_tree, written)
    body_tree = _norm_tree(body_tree, norm)
    # identify index / value: on the updating leaves index := i and value := key(data, i)
    key_call = None
    idx_var = val_var = None
    leaves = list(tree_leaves(body_tree))
    if any(l[0] not in ('fall', 'continue') for l in leaves):
        raise Untranslatable('next_cut: scan body leaves the loop')
    for l in leaves:
        for w in written:
            v = norm(l[1].get(w, ('id', '_L_w_' + w)))
            if v == ('id', '_L_i'):
                idx_var = w
            elif v[0] == 'call' and v[1][0] == 'id' and len(v[2]) == 2 and v[2][1] == ('id', '_L_i') and v[2][0] in (('id', '_L_data'),):
                val_var, key_call = w, v
    state_vars = {w for w in written if any(norm(l[1].get(w, ('id', '_L_w_' + w))) != ('id', '_L_w_' + w) for l in leaves)}
    if idx_var is None or val_var is None or state_vars != {idx_var, val_var}:
        raise Untranslatable('next_cut: scan body is not an arg-max update (index := i, value := key(data, i))')
    out['keyFunction'] = key_call[1][1]

    def updated(l):
        a = norm(l[1].get(idx_var, ('id', '_L_w_' + idx_var)))
        b = norm(l[1].get(val_var, ('id', '_L_w_' + val_var)))
        if a == ('id', '_L_i') and b == key_call:
            return True
        if a == ('id', '_L_w_' + idx_var) and b == ('id', '_L_w_' + val_var):
            return False
        raise Untranslatable('next_cut: partial update of the running maximum')
    bt = _norm_tree(body_tree, lambda e: c_replace(c_replace(e, key_call, ('id', '_L_k')), ('id', '_L_w_' + val_var), ('id', '_L_best')))
    better = tree_cond(bt, updated)
    out['better'] = c_to_lean(better, names, 'bool')
    out['scanContinue'] = c_to_lean(norm(c_subst(cond, dict(envs[0], **{ivar: ('id', '_L_i')}))), names, 'bool')
    inits = {(repr(env.get(idx_var)), repr(env.get(val_var))) for env in envs}
    if len(inits) != 1 or envs[0].get(idx_var, ('x',))[0] != 'num' or envs[0].get(val_var, ('x',))[0] != 'num':
        raise Untranslatable('next_cut: initial arg-max is not constant')
    out['scanInitIndex'] = str(envs[0][idx_var][1])
    out['scanInitValue'] = str(envs[0][val_var][1])
    # ---- after the loop: the forced minimum
    post = CExec().run(rest, dict(envs[0], **{idx_var: ('id', '_L_mi'), val_var: ('id', '_L_bestfinal'), ivar: ('id', '_L_iend')}))
    post = _norm_tree(post, norm)
    if any(l[0] != 'ret' or l[1] is None for l in tree_leaves(post)):
        raise Untranslatable('next_cut: code after the scan does not return on every path')

    def forced(l):
        return l[1] != ('id', '_L_mi')
    if not any(not forced(l) for l in tree_leaves(post)):
        raise Untranslatable('next_cut: the scan result is never returned')
    out['needForce'] = c_to_lean(tree_cond(post, forced), names, 'bool')
    fv = tree_value(post, forced, lambda l: l[1])
    if fv is None:
        raise Untranslatable('next_cut: no forced minimum')
    out['forced'] = c_to_lean(fv, names, 'nat')
    return out


def _norm_tree(t, f):
    if t[0] == 'if':
        return ('if', f(t[1]), _norm_tree(t[2], f), _norm_tree(t[3], f))
    if t[0] == 'ret':
        return ('ret', f(t[1]) if t[1] is not None else None)
    return t


def c_replace_ids(e, env):
    if not isinstance(e, tuple) or not e:
        return e
    if len(e) == 2 and e[0] == 'id':
        return env[e[1]] if e[1] in env else _CONSTS.get(e[1], e)
    return tuple(c_replace_ids(a, env) if isinstance(a, tuple) else a for a in e)


def _ids(x):
    """identifiers mentioned anywhere in an expression / statement tree"""
    if isinstance(x, tuple):
        if len(x) == 2 and x[0] == 'id' and isinstance(x[1], str):
            yield x[1]
        for a in x:
            if isinstance(a, (tuple, list)):
                yield from _ids(a)
    elif isinstance(x, list):
        for a in x:
            yield from _ids(a)


def _has_stmt(s, kind):
    if not isinstance(s, tuple):
        return False
    if s and s[0] == kind:
        return True
    return any(_has_stmt(a, kind) for a in s if isinstance(a, (tuple, list))) if s and s[0] in ('block', 'if', 'for', 'while', 'do') else \
        (any(_has_stmt(a, kind) for a in s) if isinstance(s, list) else False)


def _assigned(stmts):
    out = set()

    def ex(e):
        if not isinstance(e, tuple) or not e:
            return
        if e[0] == 'assign' and e[2][0] == 'id':
            out.add(e[2][1])
        if e[0] in ('post', 'un') and e[1] in ('++', '--') and e[2][0] == 'id':
            out.add(e[2][1])
        for a in e:
            if isinstance(a, tuple):
                ex(a)

    def st(s):
        if s[0] == 'block':
            for x in s[1]:
                st(x)
        elif s[0] == 'expr':
            ex(s[1])
        elif s[0] == 'if':
            if s[1] is not None and s[1][0] == 'expr':
                ex(s[1][1])
            ex(s[2])
            st(s[3])
            if s[4] is not None:
                st(s[4])
        elif s[0] in ('for', 'while', 'do'):
            raise Untranslatable('C: nested loop')
    for s in stmts:
        st(s)
    return out


def analyse_key(src, fname='key'):
    """the window of `gclmulchunker::key`: {'back': bytes before the offset where the 8-byte load starts}; the value must be
    extract64(k1 ^ clmul(params, clmul(params, load64(&buffer[offset - back]), 0), 0x11) ^ clmul(params, load64(…), 0), 0)"""
    fn = c_function(src, fname, 'gclmulchunker')
    if fn is None:
        raise Untranslatable('key: definition not found')
    params, body = fn
    if len(params) != 2 or None in params:
        raise Untranslatable('key: expected (buffer, offset)')
    t = CExec().run(body, {})
    if t[0] != 'ret' or t[1] is None:
        raise Untranslatable('key: not a straight-line function')
    e = t[1]

    def call(x, name, n):
        return x[0] == 'call' and x[1] == ('id', name) and len(x[2]) == n

    def xors(x):
        if call(x, '_mm_xor_si128', 2):
            return xors(x[2][0]) + xors(x[2][1])
        return [x]
    if not (call(e, '_mm_extract_epi64', 2) and e[2][1] == ('num', 0)):
        raise Untranslatable('key: result is not the low 64 bits of a vector')
    parts = xors(e[2][0])
    ids = [x for x in parts if x[0] == 'id']
    if len(parts) != 3 or len(ids) != 1:
        raise Untranslatable('key: not k1 ^ u ^ v')
    k1 = ids[0]
    parts.remove(k1)

    def load(x):
        if call(x, '_mm_loadu_si64', 1):
            a = x[2][0]
            if a[0] == 'un' and a[1] == '&' and a[2][0] == 'idx' and a[2][1] == ('id', params[0]):
                i = a[2][2]
                if i[0] == 'bin' and i[1] == '-' and i[2] == ('id', params[1]) and i[3][0] == 'num':
                    return i[3][1]
            if a[0] == 'bin' and a[1] in ('+', '-') and a[2] == ('id', params[0]):
                i = a[3]
                if a[1] == '+' and i[0] == 'bin' and i[1] == '-' and i[2] == ('id', params[1]) and i[3][0] == 'num':
                    return i[3][1]
        return None
    for v, u in (parts, parts[::-1]):
        if call(v, '_mm_clmulepi64_si128', 3) and v[2][0][0] == 'id' and v[2][2] == ('num', 0) and load(v[2][1]) is not None \
                and call(u, '_mm_clmulepi64_si128', 3) and u[2][0] == v[2][0] and u[2][1] == v and u[2][2] == ('num', 0x11) \
                and v[2][0] != k1:
            return {'back': load(v[2][1]), 'params': v[2][0][1], 'k1': k1[1]}
    raise Untranslatable('key: not the two carry-less multiplications of the modelled reduction')


def analyse_ctor(src, params='params', k1='k1'):
    """the constant of the reduction step, from the constructor: at its end <params> = _mm_set_epi64x(C, low 64 bits of the key)
    and <k1> = the key shifted right by 8 bytes"""
    try:
        fn = c_function(src, 'gclmulchunker')
        if fn is None:
            raise Untranslatable('constructor not found')
        prm, body = fn
        if len(prm) != 3 or None in prm:
            raise Untranslatable('constructor: expected (min, max, key)')
        t = CExec().run(body, {})
    except Untranslatable as e:
        raise Untranslatable(f'parse: {e}')
    falls = [l for l in tree_leaves(t) if l[0] == 'fall']
    if len(falls) != 1 or any(l[0] not in ('fall', 'throw') for l in tree_leaves(t)):
        raise Untranslatable('constructor: not one normal way out')
    env = falls[0][1]
    P, K = env.get(params), env.get(k1)

    def call(x, name, n):
        return x is not None and x[0] == 'call' and x[1] == ('id', name) and len(x[2]) == n
    if not (call(P, '_mm_set_epi64x', 2) and P[2][0][0] == 'num' and call(P[2][1], '_mm_extract_epi64', 2) and P[2][1][2][1] == ('num', 0)):
        raise Untranslatable('constructor: params is not set_epi64x(constant, low half of the key)')
    whole = P[2][1][2][0]
    if not (call(whole, '_mm_loadu_si128', 1) and call(K, '_mm_bsrli_si128', 2) and K[2][0] == whole and K[2][1] == ('num', 8)):
        raise Untranslatable('constructor: k1 is not the high half of the key')
    return P[2][0][1]
