#!/bin/bash
# usage: try_seed.sh <seed worktree> <ID> <prop> [<prop>...]   — verifies a seeded change and runs the given checks against it
W=$1; ID=$2; shift 2
cd $W || exit 2
echo "--- tests with change"; /venv/bin/python -m pytest -q -p no:cacheprovider --timeout=900 -x 2>&1 | tail -1
echo "--- demo with change"; /venv/bin/python demo_$ID.py >/tmp/demo_with.log 2>&1; echo "exit=$?"
git diff > /tmp/_seed_patch.diff; git checkout -q -- .
echo "--- demo without change"; /venv/bin/python demo_$ID.py >/tmp/demo_without.log 2>&1; echo "exit=$?"
git apply /tmp/_seed_patch.diff
cd /verif
rm -rf .work/evidence_keep && cp -r evidence .work/evidence_keep   # evidence committed in /verif must come from runs on /repo itself
for P in "$@"; do
  echo "--- check $P against the change"
  REPLICAT_REPO=$W timeout 1500 /venv/bin/python -m harness.check $P --tier quick 2>&1 | grep -E "VIOLATION|KNOWN|INFRA" | head -5; echo "exit=${PIPESTATUS[0]}"
done
rm -rf evidence && mv .work/evidence_keep evidence
# leave Generated.lean as for /repo
python3 tools/extract.py >/dev/null
