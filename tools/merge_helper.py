#!/usr/bin/env python3
"""Resolve the three files every property branch touches: known_findings.json (union by (property,id)),
lean/ReplicatModel.lean (union of import lines), Generated.lean (regenerated).  Usage: after `git merge <branch>` reports conflicts."""
import json, re, subprocess, sys
from pathlib import Path
V = Path(__file__).resolve().parent.parent
branch = sys.argv[1]

def show(ref, path):
    p = subprocess.run(['git', '-C', str(V), 'show', f'{ref}:{path}'], capture_output=True, text=True)
    return p.stdout if p.returncode == 0 else None

ours, theirs = show('HEAD', 'known_findings.json'), show(branch, 'known_findings.json')
a = json.loads(ours)
seen = {(f['property'], f['id']) for f in a['findings']}
for f in json.loads(theirs)['findings'] if theirs else []:
    if (f['property'], f['id']) not in seen:
        a['findings'].append(f)
(V / 'known_findings.json').write_text(json.dumps(a, indent=1, ensure_ascii=False) + '\n')
o, t = show('HEAD', 'lean/ReplicatModel.lean'), show(branch, 'lean/ReplicatModel.lean') or ''
lines = o.splitlines()
for ln in t.splitlines():
    if ln.startswith('import ') and ln not in lines:
        lines.append(ln)
(V / 'lean/ReplicatModel.lean').write_text('\n'.join(lines) + '\n')
subprocess.run(['git', '-C', str(V), 'checkout', '--ours', 'lean/ReplicatModel/Generated.lean'], check=False)
un = subprocess.run(['git', '-C', str(V), 'diff', '--name-only', '--diff-filter=U'], capture_output=True, text=True).stdout.split()
for f in un:
    if f.startswith('lean/Driver/') or f.startswith('harness/impl/__init__'):
        subprocess.run(['git', '-C', str(V), 'checkout', '--theirs', f], check=True)   # the branch owns its handler; main only had a stub
subprocess.run([sys.executable, str(V / 'tools/fix_driver_ns.py')], check=True)
subprocess.run(['git', '-C', str(V), 'add', 'lean/Driver'], check=False)
subprocess.run([sys.executable, str(V / 'tools/extract.py')], check=True)
subprocess.run([sys.executable, str(V / 'tools/gen_manifest.py')], check=True)
subprocess.run(['git', '-C', str(V), 'add', 'known_findings.json', 'lean/ReplicatModel.lean', 'lean/ReplicatModel/Generated.lean', 'MANIFEST.json'], check=True)
print('resolved')
