#!/usr/bin/env python3
"""Translator: regenerates /verif/lean/ReplicatModel/Generated.lean from /repo's CURRENT working tree.

Everything the Lean theorems depend on that is a constant, a table or a small guard expression of the
implementation is read here from the source text (Python `ast`, anchored regexes for src/adapters.cpp) and
emitted as Lean definitions in namespace `Replicat.Gen`.  The model files call these definitions and the
theorems are proved about whatever they currently say, so an edit to /repo that changes one of them is
re-checked by the Lean kernel on the next run.

Anything that cannot be recognised/translated is emitted as an `opaque` constant together with
`Gen.<section>Recognised := false`; the dependent bridge lemmas then fail to compile, which the check
reports as a broken proof obligation (never as silently assumed).

The file is rewritten only if its text changes.  A JSON side file with fingerprints of the modelled
functions (normalised AST dumps) is written next to it for the evidence.
"""
import ast
import hashlib
import json
import os
import re
import sys
from fractions import Fraction
from pathlib import Path

sys.path.insert(0, str(Path(__file__).resolve().parent))
from cexpr import translate, Untranslatable  # noqa: E402

REPO = Path(os.environ.get('REPLICAT_REPO', '/repo'))
OUT = Path(__file__).resolve().parent.parent / 'lean' / 'ReplicatModel' / 'Generated.lean'
SIDE = Path(__file__).resolve().parent.parent / '.work' / 'extract.json'

lines = []
notes = {}
fingerprints = {}


def emit(s=''):
    lines.append(s)


def strip_c_comments(s):
    s = re.sub(r'/\*.*?\*/', ' ', s, flags=re.S)
    s = re.sub(r'//[^\n]*', ' ', s)
    return s


def norm_ws(s):
    return re.sub(r'\s+', ' ', s).strip()


# ------------------------------------------------------------------ chunker (src/adapters.cpp)
def chunker_section():
    src = (REPO / 'src' / 'adapters.cpp').read_text()
    fingerprints['src/adapters.cpp'] = hashlib.sha256(norm_ws(strip_c_comments(src)).encode()).hexdigest()[:16]
    body = norm_ws(strip_c_comments(src))
    names = {
        'size': ('size', 'nat'), 'max_length': ('max', 'nat'), 'min_length': ('min', 'nat'),
        'final': ('final', 'bool'), 'i': ('i', 'nat'), 'k': ('k', 'nat'), 'max_value': ('best', 'nat'),
        'max_index': ('mi', 'nat'),
    }
    pat = re.compile(
        r'size_t gclmulchunker::next_cut\(const py::buffer& buffer, bool final = false\) \{ '
        r'const py::buffer_info& info = buffer\.request\(\); '
        r'size_t i, max_index = (?P<mi0>\d+), size = info\.size; '
        r'uint64_t max_value = (?P<mv0>\d+); '
        r'const char\* buffer_data = static_cast<char\*>\(info\.ptr\); '
        r'if \((?P<tailcond>[^{}]*?)\) \{ '
        r'if \((?P<c1>[^{}]*?)\) return (?P<r1>[^;]*?); '
        r'else if \((?P<c2>[^{}]*?)\) return (?P<r2>[^;]*?); '
        r'else return (?P<r3>[^;]*?); '
        r'\} else if \((?P<waitcond>[^{}]*?)\) return (?P<waitret>[^;]*?); '
        r'for \(i = (?P<start>\d+); (?P<loopcond>[^;]*?); i \+= (?P<stride>\d+)\) \{ '
        r'if \(auto k = key\(buffer_data, i\); (?P<better>[^{}]*?)\) \{ max_index = i; max_value = k; \} \} '
        r'if \((?P<forcecond>[^{}]*?)\) max_index = (?P<forceval>[^;]*?); '
        r'return max_index; \}')
    keypat = re.compile(
        r'uint64_t gclmulchunker::key\(const char\* buffer, size_t offset\) \{ '
        r'__m128i u = params, v = _mm_loadu_si64\(&buffer\[offset - (?P<back>\d+)\]\); '
        r'v = _mm_clmulepi64_si128\(u, v, 0\); '
        r'u = _mm_clmulepi64_si128\(u, v, 0b00010001\); '
        r'return _mm_extract_epi64\(_mm_xor_si128\(_mm_xor_si128\(k1, u\), v\), 0\); \}')
    ctorpat = re.compile(r'params = _mm_set_epi64x\((?P<red>\d+), k0\);')
    m, km, cm = pat.search(body), keypat.search(body), ctorpat.search(body)
    emit('/-! ## chunker: translated from src/adapters.cpp (gclmulchunker::next_cut / key) -/')
    ok = True
    defs = {}
    if m:
        try:
            defs['isTail'] = translate(m['tailcond'], names, 'bool')
            c1 = translate(m['c1'], names, 'bool')
            c2 = translate(m['c2'], names, 'bool')
            r1 = translate(m['r1'], names, 'nat')
            r2 = translate(m['r2'], names, 'nat')
            r3 = translate(m['r3'], names, 'nat')
            defs['tailCut'] = f'if {c1} then {r1} else if {c2} then {r2} else {r3}'
            defs['waits'] = translate(m['waitcond'], names, 'bool')
            defs['waitRet'] = translate(m['waitret'], names, 'nat')
            defs['scanContinue'] = translate(m['loopcond'], names, 'bool')
            defs['better'] = translate(m['better'], names, 'bool')
            defs['needForce'] = translate(m['forcecond'], names, 'bool')
            defs['forced'] = translate(m['forceval'], names, 'nat')
        except Untranslatable as e:
            notes['chunker'] = f'untranslatable: {e}'
            ok = False
    else:
        notes['chunker'] = 'next_cut: structure not recognised'
        ok = False
    if not (km and cm):
        notes['chunker_key'] = 'key()/constructor: structure not recognised'
    emit(f'def chunkerRecognised : Bool := {"true" if ok else "false"}')
    emit(f'def keyRecognised : Bool := {"true" if (km and cm) else "false"}')
    if ok:
        emit(f'def scanStart : Nat := {m["start"]}')
        emit(f'def scanStride : Nat := {m["stride"]}')
        emit(f'def scanInitIndex : Nat := {m["mi0"]}')
        emit(f'def scanInitValue : Nat := {m["mv0"]}')
        emit(f'def isTail (final : Bool) (size min max : Nat) : Bool := {defs["isTail"]}')
        emit(f'def tailCut (size min max : Nat) : Nat := {defs["tailCut"]}')
        emit(f'def waits (final : Bool) (size min max : Nat) : Bool := {defs["waits"]}')
        emit(f'def waitRet (size min max : Nat) : Nat := {defs["waitRet"]}')
        emit(f'def scanContinue (i min max : Nat) : Bool := {defs["scanContinue"]}')
        emit(f'def better (k best : Nat) : Bool := {defs["better"]}')
        emit(f'def needForce (mi min max : Nat) : Bool := {defs["needForce"]}')
        emit(f'def forced (min max : Nat) : Nat := {defs["forced"]}')
    else:
        for nm, ty in [('scanStart', 'Nat'), ('scanStride', 'Nat'), ('scanInitIndex', 'Nat'), ('scanInitValue', 'Nat'),
                       ('isTail', 'Bool → Nat → Nat → Nat → Bool'), ('tailCut', 'Nat → Nat → Nat → Nat'),
                       ('waits', 'Bool → Nat → Nat → Nat → Bool'), ('waitRet', 'Nat → Nat → Nat → Nat'),
                       ('scanContinue', 'Nat → Nat → Nat → Bool'), ('better', 'Nat → Nat → Bool'),
                       ('needForce', 'Nat → Nat → Nat → Bool'), ('forced', 'Nat → Nat → Nat')]:
            emit(f'opaque {nm} : {ty}')
    if km and cm:
        emit(f'def windowBack : Nat := {km["back"]}')
        emit('def windowLen : Nat := 8   -- _mm_loadu_si64')
        emit(f'def reductionConst : Nat := {cm["red"]}')
    else:
        emit('opaque windowBack : Nat')
        emit('opaque windowLen : Nat')
        emit('opaque reductionConst : Nat')
    emit()
    # Python side of the chunker adapter
    asrc = (REPO / 'replicat' / 'utils' / 'adapters.py').read_text()
    tree = ast.parse(asrc)
    vals = {}
    for node in ast.walk(tree):
        if isinstance(node, ast.ClassDef) and node.name == 'gclmulchunker':
            for st in node.body:
                if isinstance(st, ast.Assign) and len(st.targets) == 1 and isinstance(st.targets[0], ast.Name):
                    try:
                        vals[st.targets[0].id] = ast.literal_eval(st.value)
                    except Exception:
                        pass
            fingerprints['adapters.gclmulchunker'] = hashlib.sha256(ast.dump(node).encode()).hexdigest()[:16]
    for nm, lean in [('alignment', 'align'), ('MIN_LENGTH', 'defaultMin'), ('MAX_LENGTH', 'defaultMax')]:
        if isinstance(vals.get(nm), int):
            emit(f'def {lean} : Nat := {vals[nm]}')
        else:
            emit(f'opaque {lean} : Nat')
            notes[f'chunker.{nm}'] = 'not an int literal'
    emit()


# ------------------------------------------------------------------ helpers for Python sources
def find_func(tree, *path):
    """Find nested function/class by names."""
    node = tree
    for name in path:
        found = None
        for ch in ast.walk(node):
            if ch is node:
                continue
            if isinstance(ch, (ast.FunctionDef, ast.AsyncFunctionDef, ast.ClassDef)) and ch.name == name:
                found = ch
                break
        if found is None:
            return None
        node = found
    return node


def fp(name, node):
    if node is not None:
        fingerprints[name] = hashlib.sha256(ast.dump(node).encode()).hexdigest()[:16]


def rat(x):
    fr = Fraction(str(x))
    return f'(({fr.numerator} : Rat) / {fr.denominator})'


def unparse(node):
    return ast.unparse(node)


# ------------------------------------------------------------------ repository.py: layout / restore expressions
def repository_section():
    src = (REPO / 'replicat' / 'repository.py').read_text()
    tree = ast.parse(src)
    emit('/-! ## repository.py: stream layout, chunk→file attribution, restore plan -/')
    repo_cls = find_func(tree, 'Repository')
    consts = {}
    for st in repo_cls.body:
        if isinstance(st, ast.Assign) and len(st.targets) == 1 and isinstance(st.targets[0], ast.Name):
            try:
                consts[st.targets[0].id] = ast.literal_eval(st.value)
            except Exception:
                pass
    for nm, lean in [('CHUNK_PREFIX', 'chunkPrefix'), ('SNAPSHOT_PREFIX', 'snapshotPrefix')]:
        if isinstance(consts.get(nm), str):
            emit(f'def {lean} : String := {json.dumps(consts[nm])}')
        else:
            emit(f'opaque {lean} : String')
            notes[nm] = 'not a str literal'

    # --- _chunk_done
    cd = find_func(tree, 'Repository', 'snapshot', '_chunk_done')
    fp('repository.snapshot._chunk_done', cd)
    names = {
        'file.stream_start': ('fs', 'nat'), 'file.stream_end': ('fe', 'nat'),
        'chunk.stream_start': ('cs', 'nat'), 'chunk.stream_end': ('ce', 'nat'),
    }
    got = {}
    try:
        for node in ast.walk(cd):
            if isinstance(node, ast.Assign) and isinstance(node.targets[0], ast.Name):
                t = node.targets[0].id
                if t == 'bisect_point':
                    # bisect.bisect_left(state.files, (chunk.stream_end + 1,))
                    call = node.value
                    assert unparse(call.func) == 'bisect.bisect_left' and unparse(call.args[0]) == 'state.files'
                    key = call.args[1]
                    assert isinstance(key, ast.Tuple) and len(key.elts) == 1
                    got['bisectKey'] = translate(unparse(key.elts[0]), names, 'nat')
                elif t == 'part_start':
                    # max(file.stream_start - chunk.stream_start, 0)  (Python ints, may be negative → max with 0)
                    v = node.value
                    assert isinstance(v, ast.Call) and unparse(v.func) == 'max' and unparse(v.args[1]) == '0'
                    got['partStart'] = translate(unparse(v.args[0]), names, 'nat', nat_sub=True)  # Nat truncation == max(·,0)
                elif t == 'part_end':
                    # min(file.stream_end, chunk.stream_end) - chunk.stream_start
                    v = node.value
                    assert isinstance(v, ast.BinOp) and isinstance(v.op, ast.Sub)
                    got['partEndAbs'] = translate(unparse(v.left), names, 'nat')
                    got['partEndBase'] = translate(unparse(v.right), names, 'nat')
            if isinstance(node, ast.If):
                t = unparse(node.test)
                if t.startswith('file.stream_end') and isinstance(node.body[0], ast.Break):
                    got['stopScan'] = translate(t, names, 'bool')
                if 'file.digest is not None' in t:
                    # chunk.stream_end >= file.stream_end and file.digest is not None
                    assert isinstance(node.test, ast.BoolOp) and isinstance(node.test.op, ast.And) and len(node.test.values) == 2
                    assert unparse(node.test.values[1]) == 'file.digest is not None'
                    got['fileComplete'] = translate(unparse(node.test.values[0]), names, 'bool')
            if isinstance(node, ast.For) and unparse(node.iter).startswith('range(bisect_point'):
                got['rangeExpr'] = unparse(node.iter)
        assert got.get('rangeExpr') == 'range(bisect_point - 1, -1, -1)', got.get('rangeExpr')
        need = {'bisectKey', 'partStart', 'partEndAbs', 'partEndBase', 'stopScan', 'fileComplete'}
        assert need <= set(got), need - set(got)
        emit('def chunkDoneRecognised : Bool := true')
        emit(f'def bisectKey (cs ce : Nat) : Nat := {got["bisectKey"]}')
        emit(f'def stopScan (fs fe cs ce : Nat) : Bool := {got["stopScan"]}')
        emit(f'def partStart (fs fe cs ce : Nat) : Nat := {got["partStart"]}')
        emit(f'def partEnd (fs fe cs ce : Nat) : Nat := {got["partEndAbs"]} - {got["partEndBase"]}')
        emit(f'def fileComplete (fs fe cs ce : Nat) : Bool := {got["fileComplete"]}')
    except (AssertionError, Untranslatable, AttributeError, IndexError) as e:
        notes['chunk_done'] = f'not recognised: {e!r}'
        emit('def chunkDoneRecognised : Bool := false')
        emit('opaque bisectKey : Nat → Nat → Nat')
        for nm in ('stopScan', 'fileComplete'):
            emit(f'opaque {nm} : Nat → Nat → Nat → Nat → Bool')
        for nm in ('partStart', 'partEnd'):
            emit(f'opaque {nm} : Nat → Nat → Nat → Nat → Nat')

    # --- _stream_files: padding expression and read-piece size
    sf = find_func(tree, 'Repository', 'snapshot', '_stream_files')
    fp('repository.snapshot._stream_files', sf)
    try:
        piece = ast.literal_eval(sf.args.defaults[0])
        assert isinstance(piece, int)
        emit(f'def pieceSize : Nat := {piece}')
        pad = None
        for node in ast.walk(sf):
            if isinstance(node, ast.Assign) and isinstance(node.targets[0], ast.Name) and node.targets[0].id == 'padding_length':
                pad = unparse(node.value)
        # -(prev_file.stream_end - prev_file.stream_start) % alignment
        assert pad == '-(prev_file.stream_end - prev_file.stream_start) % alignment', pad
        emit('def paddingRecognised : Bool := true')
        emit('/-- `-(len) % alignment` with Python semantics (result in [0, alignment)). -/')
        emit('def padding (len alignment : Nat) : Nat := (alignment - len % alignment) % alignment')
    except (AssertionError, Exception) as e:
        notes['stream_files'] = f'not recognised: {e!r}'
        emit('def paddingRecognised : Bool := false')
        if 'def pieceSize' not in '\n'.join(lines):
            emit('opaque pieceSize : Nat')
        emit('opaque padding : Nat → Nat → Nat')

    # --- sort key of files
    snap = find_func(tree, 'Repository', 'snapshot')
    fp('repository.snapshot', snap)
    sortkey = None
    for node in ast.walk(snap):
        if isinstance(node, ast.Call) and unparse(node.func) == 'files.sort':
            sortkey = unparse(node.keywords[0].value)
    emit(f'def filesSortedBySizeThenPath : Bool := {"true" if sortkey == "lambda file: (file.stat().st_size, str(file))" else "false"}')
    # queue size / rate chunk
    qfactor = None
    rate_div = None
    for node in ast.walk(snap):
        if isinstance(node, ast.Call) and unparse(node.func) == 'queue.Queue':
            m = re.fullmatch(r'self\._concurrent \* (\d+)', unparse(node.keywords[0].value))
            qfactor = int(m.group(1)) if m else None
        if isinstance(node, ast.Assign) and unparse(node.targets[0]) == 'upload_chunk_size' and 'rate_limit' in unparse(node.value):
            m = re.fullmatch(r'max\(rate_limit // \(self\._concurrent \* (\d+)\), 1\)', unparse(node.value))
            rate_div = int(m.group(1)) if m else None
    emit(f'def queueFactor : Nat := {qfactor}' if qfactor is not None else 'opaque queueFactor : Nat')
    # every command must use the same divisor
    divs = set(re.findall(r'max\(rate_limit // \(self\._concurrent \* (\d+)\), 1\)', src))
    if rate_div is not None and divs == {str(rate_div)}:
        emit(f'def rateDivisor : Nat := {rate_div}')
    else:
        notes['rateDivisor'] = f'divisors differ: {divs}'
        emit('opaque rateDivisor : Nat')

    # --- _write_file_part: truncate(max(file_end, offset + len(data)))
    wf = find_func(tree, 'Repository', '_write_file_part')
    fp('repository._write_file_part', wf)
    trunc = None
    for node in ast.walk(wf):
        if isinstance(node, ast.Call) and unparse(node.func) == 'file.truncate':
            trunc = unparse(node.args[0])
    try:
        t = translate(trunc.replace('len(data)', 'dlen'), {'file_end': ('fileEnd', 'nat'), 'offset': ('off', 'nat'), 'dlen': ('dlen', 'nat')}, 'nat')
        emit(f'def writeTruncate (fileEnd off dlen : Nat) : Nat := {t}')
    except Exception as e:
        notes['write_file_part'] = f'not recognised: {e!r}'
        emit('opaque writeTruncate : Nat → Nat → Nat → Nat')

    # --- restore: ordering key, location slicing
    rs = find_func(tree, 'Repository', 'restore')
    fp('repository.restore', rs)
    ordered = None
    snapsort = None
    for node in ast.walk(rs):
        if isinstance(node, ast.Assign) and unparse(node.targets[0]) == 'ordered_chunks':
            ordered = unparse(node.value)
        if isinstance(node, ast.Call) and unparse(node.func) == 'snapshots.sort':
            snapsort = ', '.join(unparse(k) for k in node.keywords)
    emit(f'def restoreOrdersByCounter : Bool := {"true" if ordered == "sorted(file_data[" + repr("chunks") + "], key=lambda x: x[" + repr("counter") + "])" else "false"}')
    emit(f'def restoreNewestFirst : Bool := {"true" if snapsort == "key=lambda x: x[" + repr("data") + "][" + repr("utc_timestamp") + "], reverse=True" else "false"}')
    lm = None
    for node in ast.walk(rs):
        if isinstance(node, ast.Assign) and unparse(node.targets[0]) == 'loader':
            lm = unparse(node.value)
    m = re.search(r'max_workers=self\._concurrent \* (\d+)', lm or '')
    emit(f'def loaderFactor : Nat := {m.group(1)}' if m else 'opaque loaderFactor : Nat')

    # --- location builders
    gcl = find_func(tree, 'Repository', 'get_chunk_location')
    gsl = find_func(tree, 'Repository', 'get_snapshot_location')
    fp('repository.get_chunk_location', gcl)
    fp('repository.get_snapshot_location', gsl)
    fp('repository.parse_chunk_location', find_func(tree, 'Repository', 'parse_chunk_location'))
    fp('repository.parse_snapshot_location', find_func(tree, 'Repository', 'parse_snapshot_location'))
    cl = unparse(gcl.body[-1].value) if isinstance(gcl.body[-1], ast.Return) else ''
    sl = unparse(gsl.body[-1].value) if isinstance(gsl.body[-1], ast.Return) else ''
    m = re.fullmatch(r"posixpath\.join\(self\.CHUNK_PREFIX, tag\[:(\d+)\], tag\[(\d+):(\d+)\], f'\{tag\[(\d+):\]\}-\{name\}'\)", cl)
    if m and m.group(1) == m.group(2) and m.group(3) == m.group(4):
        emit(f'def chunkLocSplit : Nat × Nat := ({m.group(1)}, {m.group(3)})')
    else:
        notes['get_chunk_location'] = cl
        emit('opaque chunkLocSplit : Nat × Nat')
    m = re.fullmatch(r"posixpath\.join\(self\.SNAPSHOT_PREFIX, tag\[:(\d+)\], f'\{tag\[(\d+):\]\}-\{name\}'\)", sl)
    if m and m.group(1) == m.group(2):
        emit(f'def snapLocSplit : Nat := {m.group(1)}')
    else:
        notes['get_snapshot_location'] = sl
        emit('opaque snapLocSplit : Nat')
    # --- shapes of the defect fixes (each a Bool the theorems discharge by `decide`)
    frp = find_func(tree, 'Repository', '_flatten_resolve_paths')
    fp('repository._flatten_resolve_paths', frp)
    ret = [n for n in ast.walk(frp) if isinstance(n, ast.Return)]
    dedup = bool(ret) and unparse(ret[-1].value).startswith('list(dict.fromkeys(')
    emit(f'def flattenDedups : Bool := {"true" if dedup else "false"}')
    dc = find_func(tree, 'Repository', 'restore', '_download_chunk')
    fp('repository.restore._download_chunk', dc)
    body_txt = [unparse(n) for n in ast.walk(dc) if isinstance(n, (ast.Expr, ast.Assign, ast.If, ast.With))]
    trunc_ok = False
    under_lock = False
    if dc is not None:
        for n in ast.walk(dc):
            if isinstance(n, ast.If) and unparse(n.test) in ('finished', 'not digests'):
                stmts = [unparse(x) for x in n.body]
                ti = [i for i, x in enumerate(stmts) if x == 'os.truncate(restore_path, files_sizes[file_path])']
                mi = [i for i, x in enumerate(stmts) if x == 'self.restore_metadata(restore_path, metadata)']
                trunc_ok = bool(ti and mi and ti[0] < mi[0])
                under_lock = unparse(n.test) == 'finished'
            if isinstance(n, ast.With) and unparse(n.items[0].context_expr) == 'glock':
                stmts = [unparse(x) for x in n.body]
                if 'digests.remove(digest)' in stmts and 'finished = not digests' in stmts:
                    under_lock = under_lock and stmts.index('digests.remove(digest)') < stmts.index('finished = not digests')
    sizes_set = 'files_sizes[file_path] = chunk_position' in [unparse(n) for n in ast.walk(rs) if isinstance(n, ast.Assign)]
    emit(f'def restoreSetsFinalLength : Bool := {"true" if (trunc_ok and sizes_set) else "false"}')
    emit(f'def finaliseDecidedUnderLock : Bool := {"true" if under_lock else "false"}')
    rec_chunkless = False
    for n in ast.walk(snap):
        if isinstance(n, ast.For) and unparse(n.iter) == 'state.files':
            t = unparse(n)
            rec_chunkless = 'if file.path not in snapshot_files' in t and "'chunks': []" in t and "'digest': file.digest" in t and "'metadata': file.metadata" in t
    emit(f'def recordsChunklessFiles : Bool := {"true" if rec_chunkless else "false"}')
    res_chunkless = False
    for n in ast.walk(rs):
        if isinstance(n, ast.For) and unparse(n.iter) == 'chunkless_files':
            stmts = [unparse(x) for x in n.body]
            res_chunkless = ("self._write_file_part(restore_path, b'', 0)" in stmts and 'os.truncate(restore_path, 0)' in stmts
                             and 'self.restore_metadata(restore_path, metadata)' in stmts)
    marks = [unparse(n) for n in ast.walk(rs) if isinstance(n, ast.If)]
    res_chunkless = res_chunkless and any(m.startswith('if not ordered_chunks:\n    chunkless_files.append(file_path)') for m in marks)
    emit(f'def restoresChunklessFiles : Bool := {"true" if res_chunkless else "false"}')
    # --- cache verification (C18)
    dst = find_func(tree, 'Repository', '_download_snapshot_threadsafe')
    cache_ok = False
    if dst is not None:
        for n in ast.walk(dst):
            if isinstance(n, ast.Try) and n.orelse:
                t = [unparse(x) for x in n.orelse]
                cache_ok = any(x.startswith('if self.props.hash_digest(contents) != expected_digest:') and 'contents = None' in x for x in t)
    emit(f'def cacheVerified : Bool := {"true" if cache_ok else "false"}')
    for nm in ('_download_snapshot_threadsafe', '_load_snapshots', 'delete_snapshots', 'clean', '_decrypt_snapshot_body',
               '_encrypt_snapshot_body', '_chunk_digest_to_location_parts', '_snapshot_digest_to_location_parts', 'init',
               'unlock', 'add_key', '_make_key', '_instantiate_key', '_make_config', 'list_snapshots', 'list_files',
               '_flatten_resolve_paths', 'restore_metadata', 'read_metadata', '_acquire_slot', '_acquire_slot_threadsafe'):
        fp(f'repository.{nm}', find_func(tree, 'Repository', nm))
    emit()


# ------------------------------------------------------------------ utils/__init__.py: rate limiter
def ratelimit_section():
    src = (REPO / 'replicat' / 'utils' / '__init__.py').read_text()
    tree = ast.parse(src)
    emit('/-! ## utils/__init__.py: RateLimitedIO -/')
    rl = find_func(tree, 'RateLimitedIO')
    fp('utils.RateLimitedIO', rl)
    fp('utils._RateLimitedFileWrapper', find_func(tree, '_RateLimitedFileWrapper'))
    fp('utils.requires_auth', find_func(tree, 'requires_auth'))
    fp('utils.type_hint', find_func(tree, 'type_hint'))
    fp('utils.type_reverse', find_func(tree, 'type_reverse'))
    fp('utils.guess_type', find_func(tree, 'guess_type'))
    vals = {}
    for st in rl.body:
        if isinstance(st, ast.Assign) and isinstance(st.targets[0], ast.Name):
            try:
                vals[st.targets[0].id] = ast.literal_eval(st.value)
            except Exception:
                pass
    for nm, lean in [('PAUSE_THRESHOLD_SECONDS', 'pauseThreshold'), ('PAUSE_LIMIT', 'pauseLimit')]:
        if isinstance(vals.get(nm), (int, float)):
            emit(f'def {lean} : Rat := {rat(vals[nm])}')
        else:
            emit(f'opaque {lean} : Rat')
            notes[nm] = 'not a numeric literal'
    # shape of pause_reads / pause_writes
    shape_ok = True
    for which in ('read', 'write'):
        f = find_func(tree, 'RateLimitedIO', f'pause_{which}s')
        want = (
            f"with self._{which}_lock:\n"
            f"    self._{which}_sleep_amortised += seconds\n"
            f"    if self._{which}_sleep_amortised > self.PAUSE_LIMIT:\n"
            f"        self._{which}_sleep_amortised = self.PAUSE_LIMIT\n"
            f"    if self._{which}_sleep_amortised <= self.PAUSE_THRESHOLD_SECONDS:\n"
            f"        return\n"
            f"    sleep_start = time.perf_counter()\n"
            f"    time.sleep(self._{which}_sleep_amortised)\n"
            f"    self._{which}_sleep_amortised -= time.perf_counter() - sleep_start")
        got = '\n'.join(unparse(s) for s in f.body) if f is not None else ''
        if got != want:
            shape_ok = False
            notes[f'pause_{which}s'] = 'shape differs from the modelled one'
    emit(f'def pauseShapeRecognised : Bool := {"true" if shape_ok else "false"}')
    emit()


# ------------------------------------------------------------------ backends: retry policies, S3 quoting
def backends_section():
    emit('/-! ## backends: retry policies, S3 signing inputs, B2 listing -/')
    def deco_kwargs(src, varname):
        tree = ast.parse(src)
        for node in ast.walk(tree):
            if isinstance(node, ast.Assign) and isinstance(node.targets[0], ast.Name) and node.targets[0].id == varname:
                call = node.value
                kw = {k.arg: unparse(k.value) for k in call.keywords}
                args = [unparse(a) for a in call.args]
                return args, kw
        return None, None
    local = (REPO / 'replicat' / 'backends' / 'local.py').read_text()
    s3c = (REPO / 'replicat' / 'backends' / 's3c.py').read_text()
    b2 = (REPO / 'replicat' / 'backends' / 'b2.py').read_text()
    for nm, src in (('local', local), ('s3c', s3c), ('b2', b2)):
        fingerprints[f'backends/{nm}.py'] = hashlib.sha256(ast.dump(ast.parse(src)).encode()).hexdigest()[:16]
    a, kw = deco_kwargs(local, 'backoff_on_oserror')
    def tries(kw):
        try:
            v = int(kw.get('max_tries'))
            return f'some {v}'
        except Exception:
            return 'none'
    emit(f'def retryLocalMaxTries : Option Nat := {tries(kw or {})}')
    emit(f'def retryLocalCatchesOSError : Bool := {"true" if a and a[1:2] == ["OSError"] else "false"}')
    a, kw = deco_kwargs(s3c, 'backoff_on_httperror')
    emit(f'def retryS3MaxTries : Option Nat := {tries(kw or {})}')
    emit(f'def retryS3GiveupOn403 : Bool := {"true" if (kw or {}).get("giveup") == "_check_403" else "false"}')
    a, kw = deco_kwargs(b2, '_backoff_decorator')
    emit(f'def retryB2MaxTries : Option Nat := {tries(kw or {})}')
    # S3 quoting
    tree = ast.parse(s3c)
    pr = find_func(tree, 'S3Compatible', '_prepare_request')
    quote_call = urlencode_call = None
    for node in ast.walk(pr):
        if isinstance(node, ast.Call) and unparse(node.func) == 'quote':
            quote_call = node
        if isinstance(node, ast.Call) and unparse(node.func) == 'urlencode':
            urlencode_call = node
    qsafe = '/'
    if quote_call is not None:
        for k in quote_call.keywords:
            if k.arg == 'safe':
                qsafe = ast.literal_eval(k.value)
    emit(f'def s3PathSafe : String := {json.dumps(qsafe)}')
    via = 'quote_plus'
    usafe = ''
    sorted_q = False
    if urlencode_call is not None:
        for k in urlencode_call.keywords:
            if k.arg == 'quote_via':
                via = unparse(k.value)
            if k.arg == 'safe':
                usafe = ast.literal_eval(k.value)
        sorted_q = unparse(urlencode_call.args[0]).startswith('sorted(')
    emit(f'def s3QueryQuoteVia : String := {json.dumps(via)}')
    emit(f'def s3QuerySafe : String := {json.dumps(usafe)}')
    emit(f'def s3QuerySorted : Bool := {"true" if sorted_q else "false"}')
    hdrs = None
    for node in ast.walk(pr):
        if isinstance(node, ast.Assign) and unparse(node.targets[0]) == 'canonical_headers' and isinstance(node.value, ast.Dict):
            hdrs = [ast.literal_eval(k) for k in node.value.keys]
    emit('def s3SignedHeaders : List String := ' + ('[' + ', '.join(json.dumps(h) for h in hdrs) + ']' if hdrs else '[]'))
    m = re.search(r"'maxFileCount': ([\d_]+)", b2)
    emit(f'def b2MaxFileCount : Nat := {int(m.group(1).replace("_", ""))}' if m else 'opaque b2MaxFileCount : Nat')
    base = (REPO / 'replicat' / 'backends' / 'base.py').read_text()
    m = re.search(r'^DEFAULT_STREAM_CHUNK_SIZE = ([\d_]+)', base, re.M)
    emit(f'def streamChunk : Nat := {int(m.group(1).replace("_", ""))}' if m else 'opaque streamChunk : Nat')
    emit()


class Ctx:
    """What a plug-in section (tools/sections/NN_name.py, function `section(ctx)`) may use."""
    REPO = REPO
    emit = staticmethod(emit)
    notes = notes
    fingerprints = fingerprints
    translate = staticmethod(translate)
    Untranslatable = Untranslatable
    find_func = staticmethod(find_func)
    fp = staticmethod(fp)
    rat = staticmethod(rat)
    unparse = staticmethod(unparse)


def plugin_sections():
    """Each property adds its own extraction in tools/sections/*.py (sorted by file name).  A plug-in that raises is
    recorded in the notes and emits `def <name>SectionOk : Bool := false`, so that dependent bridge lemmas fail."""
    import importlib.util
    d = Path(__file__).resolve().parent / 'sections'
    for f in sorted(d.glob('*.py')):
        name = re.sub(r'^\d+_', '', f.stem)
        spec = importlib.util.spec_from_file_location(f'sections_{f.stem}', f)
        mod = importlib.util.module_from_spec(spec)
        mark = len(lines)
        try:
            spec.loader.exec_module(mod)
            emit(f'/-! ## plug-in section {f.name} -/')
            mod.section(Ctx)
            emit(f'def {name}SectionOk : Bool := true')
        except Exception as e:  # noqa: BLE001
            del lines[mark:]
            notes[f'section:{f.name}'] = f'failed: {e!r}'
            emit(f'/-! ## plug-in section {f.name}: FAILED ({type(e).__name__}) -/')
            emit(f'def {name}SectionOk : Bool := false')
        emit()


def main():
    emit('/- GENERATED by /verif/tools/extract.py from /repo — do not edit; regenerated on every run. -/')
    emit('set_option linter.unusedVariables false')
    emit('namespace Replicat.Gen')
    emit()
    chunker_section()
    repository_section()
    ratelimit_section()
    backends_section()
    plugin_sections()
    emit('end Replicat.Gen')
    text = '\n'.join(lines) + '\n'
    OUT.parent.mkdir(parents=True, exist_ok=True)
    changed = (not OUT.exists()) or OUT.read_text() != text
    if changed:
        OUT.write_text(text)
    SIDE.parent.mkdir(parents=True, exist_ok=True)
    SIDE.write_text(json.dumps({'notes': notes, 'fingerprints': fingerprints, 'generated_sha': hashlib.sha256(text.encode()).hexdigest()[:16]}, indent=1))
    print(json.dumps({'changed': changed, 'notes': notes}))


if __name__ == '__main__':
    main()
