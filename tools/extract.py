#!/usr/bin/env python3
"""Translator: regenerates /verif/lean/ReplicatModel/Generated.lean from /repo's CURRENT working tree.

Everything the Lean theorems depend on that is a constant, a table or a small guard expression of the
implementation is read here from the source and emitted as Lean definitions in namespace `Replicat.Gen`.
The model files call these definitions and the theorems are proved about whatever they currently say, so
an edit to /repo that changes one of them is re-checked by the Lean kernel on the next run.

The recognisers of this file are SEMANTIC, not textual: a behaviour-preserving rewrite of the source must
leave every fact as it is (a fact that flips without a behaviour change is a false alarm of the framework).

* Python (`replicat/repository.py`): the methods are executed symbolically, path by path (tools/pyflow.py):
  locals are resolved through their assignments, helper calls (methods through `self`, nested functions,
  module-level functions) are followed, `if/else`, early `return`/`continue`, conditional expressions and
  `try/except/else` all become literals on a path, loops become the paths of one iteration.  A fact is a
  query over those paths ("every finalisation truncates the file to SIZES[path] before the metadata is
  restored", "the cached bytes are not used on a path that does not know hash(bytes) == expected", …),
  never a comparison of statement text or of the names of locals / private helpers.
* C++ (`src/adapters.cpp`): `next_cut` is parsed into statements and turned into a decision tree
  (tools/cexpr.py); the guard functions of the model (`isTail`, `tailCut`, `waits`, …) are read off the tree,
  whatever nesting of `if`/`else`/early returns/`?:`/helper functions produced it.
* What is really gone comes out `false` / `opaque`; a shape the analysis does not understand also comes out
  `false` / `opaque` (never a guessed `true`).

Anything that cannot be recognised/translated is emitted as an `opaque` constant together with
`Gen.<section>Recognised := false`; the dependent bridge lemmas then fail to compile, which the check
reports as a broken proof obligation (never as silently assumed).

The file is rewritten only if its text changes.  A JSON side file with fingerprints of the modelled
functions (normalised AST dumps) is written next to it for the evidence.
"""
import ast
import hashlib
import json
import os
import re
import sys
from fractions import Fraction
from pathlib import Path

sys.path.insert(0, str(Path(__file__).resolve().parent))
from cexpr import translate, Untranslatable, analyse_next_cut, analyse_key, analyse_ctor  # noqa: E402

REPO = Path(os.environ.get('REPLICAT_REPO', '/repo'))
OUT = Path(__file__).resolve().parent.parent / 'lean' / 'ReplicatModel' / 'Generated.lean'
SIDE = Path(__file__).resolve().parent.parent / '.work' / 'extract.json'
if os.environ.get('REPLICAT_GEN_OUT'):
    # dry run (comparing what would be generated for another checkout): nothing of the framework is touched
    OUT = Path(os.environ['REPLICAT_GEN_OUT'])
    SIDE = OUT.with_suffix('.json')

lines = []
notes = {}
fingerprints = {}


def emit(s=''):
    lines.append(s)


def const_eval(node, env=None):
    return F.const_eval(node, env)


def class_consts(cls_node, env=None):
    """{name: value} of the constant class attributes (each may use the earlier ones / module constants)"""
    vals = dict(env or {})
    out = {}
    for st in cls_node.body:
        tgt = None
        if isinstance(st, ast.Assign) and len(st.targets) == 1 and isinstance(st.targets[0], ast.Name):
            tgt, val = st.targets[0].id, st.value
        elif isinstance(st, ast.AnnAssign) and isinstance(st.target, ast.Name) and st.value is not None:
            tgt, val = st.target.id, st.value
        if tgt is not None:
            try:
                out[tgt] = vals[tgt] = const_eval(val, vals)
            except Exception:  # noqa: BLE001
                pass
    return out


def module_consts(tree):
    vals = {}
    for st in tree.body:
        if isinstance(st, ast.Assign) and len(st.targets) == 1 and isinstance(st.targets[0], ast.Name):
            try:
                vals[st.targets[0].id] = const_eval(st.value, vals)
            except Exception:  # noqa: BLE001
                pass
    return vals


def strip_c_comments(s):
    s = re.sub(r'/\*.*?\*/', ' ', s, flags=re.S)
    s = re.sub(r'//[^\n]*', ' ', s)
    return s


def norm_ws(s):
    return re.sub(r'\s+', ' ', s).strip()


# ------------------------------------------------------------------ chunker (src/adapters.cpp)
def chunker_section():
    src = (REPO / 'src' / 'adapters.cpp').read_text()
    fingerprints['src/adapters.cpp'] = hashlib.sha256(norm_ws(strip_c_comments(src)).encode()).hexdigest()[:16]
    body = norm_ws(strip_c_comments(src))
    # the constant of the reduction step: params = _mm_set_epi64x(<constant>, k0)
    ctorpat = re.compile(r'params\s*=\s*_mm_set_epi64x\(\s*(?P<red>0[xX][0-9a-fA-F]+|\d+)\s*,\s*k0\s*\)\s*;')
    cm = ctorpat.search(body)
    emit('/-! ## chunker: translated from src/adapters.cpp (gclmulchunker::next_cut / key) -/')
    ok = True
    defs = {}
    m = {}
    try:
        # control flow of next_cut → guard functions, by path enumeration (cexpr.analyse_next_cut)
        defs = analyse_next_cut(src)
        m = {'start': defs['scanStart'], 'stride': defs['scanStride'], 'mi0': defs['scanInitIndex'], 'mv0': defs['scanInitValue']}
    except (Untranslatable, RecursionError, IndexError, KeyError, TypeError, ValueError, AttributeError) as e:
        notes['chunker'] = f'next_cut not recognised: {e}'
        ok = False
        defs = {}
    km = None
    try:
        km = analyse_key(src, defs.get('keyFunction', 'key'))
    except (Untranslatable, RecursionError, IndexError, KeyError, TypeError, ValueError, AttributeError) as e:
        km = None
        notes['chunker_key'] = f'key()/constructor: structure not recognised: {e}'
    red = None
    try:
        if km:
            red = analyse_ctor(src, km['params'], km['k1'])
    except (Untranslatable, RecursionError, IndexError, KeyError, TypeError, ValueError, AttributeError) as e:
        if str(e).startswith('parse:'):
            notes['chunker_ctor'] = f'constructor not parsed ({e}); falling back to the textual form'
            red = int(cm['red'], 0) if cm else None
        else:
            notes['chunker_ctor'] = f'constructor: {e}'
    cm = {'red': str(red)} if red is not None else None
    if not cm:
        notes['chunker_key'] = 'constructor: reduction constant not recognised'
    emit(f'def chunkerRecognised : Bool := {"true" if ok else "false"}')
    emit(f'def keyRecognised : Bool := {"true" if (km and cm) else "false"}')
    if ok:
        emit(f'def scanStart : Nat := {m["start"]}')
        emit(f'def scanStride : Nat := {m["stride"]}')
        emit(f'def scanInitIndex : Nat := {m["mi0"]}')
        emit(f'def scanInitValue : Nat := {m["mv0"]}')
        emit(f'def isTail (final : Bool) (size min max : Nat) : Bool := {defs["isTail"]}')
        emit(f'def tailCut (size min max : Nat) : Nat := {defs["tailCut"]}')
        emit(f'def waits (final : Bool) (size min max : Nat) : Bool := {defs["waits"]}')
        emit(f'def waitRet (size min max : Nat) : Nat := {defs["waitRet"]}')
        emit(f'def scanContinue (i min max : Nat) : Bool := {defs["scanContinue"]}')
        emit(f'def better (k best : Nat) : Bool := {defs["better"]}')
        emit(f'def needForce (mi min max : Nat) : Bool := {defs["needForce"]}')
        emit(f'def forced (min max : Nat) : Nat := {defs["forced"]}')
    else:
        for nm, ty in [('scanStart', 'Nat'), ('scanStride', 'Nat'), ('scanInitIndex', 'Nat'), ('scanInitValue', 'Nat'),
                       ('isTail', 'Bool → Nat → Nat → Nat → Bool'), ('tailCut', 'Nat → Nat → Nat → Nat'),
                       ('waits', 'Bool → Nat → Nat → Nat → Bool'), ('waitRet', 'Nat → Nat → Nat → Nat'),
                       ('scanContinue', 'Nat → Nat → Nat → Bool'), ('better', 'Nat → Nat → Bool'),
                       ('needForce', 'Nat → Nat → Nat → Bool'), ('forced', 'Nat → Nat → Nat')]:
            emit(f'opaque {nm} : {ty}')
    if km and cm:
        emit(f'def windowBack : Nat := {km["back"]}')
        emit('def windowLen : Nat := 8   -- _mm_loadu_si64')
        emit(f'def reductionConst : Nat := {int(cm["red"], 0)}')
    else:
        emit('opaque windowBack : Nat')
        emit('opaque windowLen : Nat')
        emit('opaque reductionConst : Nat')
    emit()
    # Python side of the chunker adapter
    asrc = (REPO / 'replicat' / 'utils' / 'adapters.py').read_text()
    tree = ast.parse(asrc)
    vals = {}
    for node in ast.walk(tree):
        if isinstance(node, ast.ClassDef) and node.name == 'gclmulchunker':
            vals = class_consts(node, module_consts(tree))
            fingerprints['adapters.gclmulchunker'] = hashlib.sha256(ast.dump(node).encode()).hexdigest()[:16]
    for nm, lean in [('alignment', 'align'), ('MIN_LENGTH', 'defaultMin'), ('MAX_LENGTH', 'defaultMax')]:
        if isinstance(vals.get(nm), int):
            emit(f'def {lean} : Nat := {vals[nm]}')
        else:
            emit(f'opaque {lean} : Nat')
            notes[f'chunker.{nm}'] = 'not an int literal'
    emit()


# ------------------------------------------------------------------ helpers for Python sources
def find_func(tree, *path):
    """Find nested function/class by names."""
    node = tree
    for name in path:
        found = None
        for ch in ast.walk(node):
            if ch is node:
                continue
            if isinstance(ch, (ast.FunctionDef, ast.AsyncFunctionDef, ast.ClassDef)) and ch.name == name:
                found = ch
                break
        if found is None:
            return None
        node = found
    return node


def fp(name, node):
    if node is not None:
        fingerprints[name] = hashlib.sha256(ast.dump(node).encode()).hexdigest()[:16]


def rat(x):
    fr = Fraction(str(x))
    return f'(({fr.numerator} : Rat) / {fr.denominator})'


def unparse(node):
    return ast.unparse(node)


# ------------------------------------------------------------------ flow-based recognisers (semantic, see pyflow.py)
import pyflow as F  # noqa: E402

UNWRAP_ITER = ('list', 'tuple', 'iter', 'reversed', 'sorted', 'set', 'frozenset')


class Flow:
    """lazily computed symbolic paths of replicat/repository.py (cached per run)"""
    def __init__(self, path, cls='Repository'):
        self.mod = F.Module(str(path))
        self.cls = cls
        self._top = {}
        self._nested = {}

    def method(self, name):
        return self.mod.method(self.cls, name)

    def top(self, name):
        if name not in self._top:
            node = self.method(name)
            if node is None:
                raise F.Unsupported(f'no method {name}')
            self._top[name] = self.mod.run(node, self.cls)
        return self._top[name]

    def nested(self, state, node):
        key = (id(state), id(node))
        if key not in self._nested:
            self._nested[key] = self.mod.run(node, self.cls, closure=state)
        return self._nested[key]

    def units_below(self, state, seen=None, depth=0, every=False, within=None):
        """(node, paths) of the functions that run on their own below this path: those handed on as callbacks (the ones only
        called directly were followed at their call sites), recursively; `every` = all functions defined on it instead"""
        seen = set() if seen is None else seen
        if every:
            cands = {id(node): node for _n, node, _s in F.nested_funcs(state)}
        else:
            cands = F.escaping_funcs(within if within is not None else [state])
        for key, node in cands.items():
            if key in seen or depth > 3 or F.FUNCS[key][1] is not None:
                continue
            seen.add(key)
            paths = self.nested(state, node)
            yield node, paths
            rs = [q for q in paths if q.status == 'return'] or paths
            if every:
                yield from self.units_below(rs[0], seen, depth + 1, True)
            else:
                yield from self.units_below(rs[0], seen, depth + 1, False, paths)


def returns(paths):
    return [p for p in paths if p.status == 'return']


def representatives(paths):
    """one path per closure signature (what nested functions see), for queries that only look below the top level"""
    seen, out = set(), []
    for p in paths:
        sig = F.closure_signature(p)
        if sig not in seen:
            seen.add(sig)
            out.append(p)
    return out


def walk(events, chain=()):
    """(event, chain, index, events) over a path and, recursively, the iteration paths of its loops"""
    for i, e in enumerate(events):
        yield e, chain, i, events
        if e.kind == 'loop':
            for q in e.a.paths:
                yield from walk(q.events, chain + ((e.a, q),))


def call_parts(e):
    """(func, args, kwargs dict) of a call event (stripped of evaluation identities)"""
    if e.kind != 'call' or e.a[0] != 'call':
        return None
    return F.strip(e.a[2]), e.a[3], dict(e.a[4])


def func_name(f):
    """last component of the callee: os.truncate → 'truncate', self.restore_metadata → 'restore_metadata'"""
    if f[0] in ('attr',):
        return f[2]
    if f[0] == 'method':
        return f[2]
    if f[0] == 'name':
        return f[1]
    if f[0] == 'func' and f[1] in F.FUNCS:
        return F.FUNCS[f[1]][0].name
    return None


def unwrap_iter(x):
    """the collection actually iterated: list(X) / sorted(X) / reversed(X) / X[:] → X"""
    while True:
        if x[0] == 'call' and x[2][0] == 'name' and x[2][1] in UNWRAP_ITER and len(x[3]) == 1 and not x[4]:
            x = x[3][0]
        elif x[0] == 'sub' and x[2][0] == 'slice' and all(F.is_const(a) and a[1] is None for a in x[2][1:]):
            x = x[1]
        else:
            return x


def dict_items(v):
    """{'key': sym} of a dict display with constant string keys, else None"""
    if v[0] != 'dict':
        return None
    out = {}
    for k, val in v[2]:
        if not (k[0] == 'const' and isinstance(k[1], str)):
            return None
        out[k[1]] = val
    return out


def emptiness(lits, xs):
    """True / False / None: the path knows that (one of) the collections `xs` is empty / non-empty / neither"""
    sx = [F.strip(x) for x in xs]
    for l, pol in lits:
        c, p = F.canon_lit(l, pol)
        if c in sx:
            return not p
        if c[0] == 'cmp' and c[1] in ('==', '<'):
            a, b = c[2], c[3]

            def is_len(t):
                return t[0] == 'call' and t[2] == ('name', 'len') and len(t[3]) == 1 and t[3][0] in sx
            if c[1] == '==' and ((is_len(a) and F.is_const(b, 0)) or (is_len(b) and F.is_const(a, 0))):
                return p
            if c[1] == '<' and F.is_const(a, 0) and is_len(b):       # 0 < len(x)
                return not p
            if c[1] == '<' and is_len(a) and F.is_const(b, 1):       # len(x) < 1
                return p
    return None


# ---- restore: the write plan
def _part_loop_var(L):
    """name of a carried variable of loop L that adds up `end - start` of each element's 'range' from 0, or None"""
    vs = _part_loop_vars(L)
    return vs[0] if vs else None


def _counts_iterations(L, key):
    """the carried variable is 0 before the loop and a 1-based enumerate index inside: it is falsy exactly when there was no iteration"""
    if not F.is_const(L.init.get(key), 0):
        return False
    nexts = L.next_of(key)
    return bool(nexts) and all(v is not None and v[0] == 'enumidx' and type(v[2]) is int and v[2] >= 1 for v in nexts)


def _part_loop_vars(L):
    """the carried variables of loop L that add up `end - start` of each element's 'range' from 0"""
    out = []
    if L.kind != 'for':
        return out
    for n in L.carried:
        if not F.is_const(L.init.get(n), 0):
            continue
        nexts = L.next_of(n)
        if not nexts:
            continue
        ok = True
        for v in nexts:
            v = F.strip(v)
            if not (v[0] == 'bin' and v[1] == '+' and ('phi', L.uid, n) in (v[2], v[3])):
                ok = False
                break
            sz = v[3] if v[2] == ('phi', L.uid, n) else v[2]
            cap = F.match(sz, ('bin', '-', ('item', F.Cap('r'), 1), ('item', F.Cap('r'), 0)))
            if cap is None:
                ok = False
                break
            r = cap['r']
            if not (r[0] == 'sub' and r[2] == ('const', 'range') and r[1] in (('elem', L.uid), ('item', ('elem', L.uid), 1))):
                ok = False
                break
        if ok:
            out.append(n)
    return out


def _by_counter_key(k):
    try:
        return key_body(None, k) == ('sub', ('bound', 0, 0), ('const', 'counter'))
    except F.Unsupported:
        return False


def _sorted_by_counter(it, before):
    """`it` enumerates X['chunks'] in increasing 'counter': sorted(X['chunks'], key=…) or a list sorted in place before"""
    x = it
    if x[0] == 'call' and x[2] == ('name', 'enumerate') and len(x[3]) >= 1:
        x = x[3][0]
    if x[0] == 'call' and x[2] == ('name', 'sorted') and len(x[3]) == 1:
        kw = dict(x[4])
        src = F.strip(unwrap_iter(x[3][0]))
        if set(kw) <= {'key', 'reverse'} and 'key' in kw and _by_counter_key(kw['key']) \
                and ('reverse' not in kw or F.is_const(kw['reverse'], False)) \
                and src[0] == 'sub' and src[2] == ('const', 'chunks'):
            return True
        return False
    # in-place: X = list(fd['chunks']) … X.sort(key=…) … for … in X
    uid = F.sym_uid(x)
    if uid is None:
        return False
    src = F.strip(unwrap_iter(x))
    if not (src[0] == 'sub' and src[2] == ('const', 'chunks')):
        return False
    sorts = [e for e in before if e.kind == 'call' and e.a[0] == 'call' and e.a[2][0] == 'attr' and e.a[2][2] == 'sort'
             and F.sym_uid(e.a[2][1]) == uid]
    if len(sorts) != 1:
        return False
    kw = dict(sorts[0].a[4])
    return set(kw) <= {'key', 'reverse'} and 'key' in kw and _by_counter_key(kw['key']) and not sorts[0].a[3] \
        and ('reverse' not in kw or F.is_const(kw['reverse'], False))


def restore_plan(path):
    """what the plan-building part of one top-level path of `restore` does; None = no recognisable plan loop.
    {'ordered': bool, 'sizes': dict uid or None, 'chunkless': list uid or None}"""
    res = {'ordered': True, 'sizes': 'unset', 'chunkless': 'unset', 'n': 0}
    per_file = {}
    for e, chain, i, events in walk(path.events):
        if e.kind != 'loop':
            continue
        L = e.a
        pvars = _part_loop_vars(L)
        if not pvars:
            continue
        res['n'] += 1
        if not _sorted_by_counter(L.iter, events[:i]):
            res['ordered'] = False
        # the per-file part of the path: the rest of the iteration of the enclosing loop (or of the function)
        after = events[i + 1:]
        lits = [(x.a, x.b) for x in events if x.kind == 'cond']
        # final length: SIZES[file path] = the accumulated offset
        stores = [x for x in after if x.kind == 'store' and F.strip(x.b) in [('loopout', L.uid, v) for v in pvars]
                  and x.a[0] == 'sub' and F.sym_uid(x.a[1]) is not None]
        keyed = [x for x in stores if F.strip(x.a[2])[0] == 'sub' and F.strip(x.a[2])[2] == ('const', 'path')]
        sz = F.sym_uid(keyed[0].a[1]) if len(keyed) == 1 else None
        if res['sizes'] == 'unset':
            res['sizes'] = sz
            res['sizes_key'] = F.strip(keyed[0].a[2]) if sz is not None else None
        elif res['sizes'] != sz:
            res['sizes'] = None
        # chunkless: when there is nothing to iterate, the file path is remembered in a list
        src = unwrap_iter(L.iter[3][0]) if (L.iter[0] == 'call' and L.iter[3]) else L.iter
        emp = emptiness(lits, [L.iter, src])
        if emp is None:
            # counted instead: `for n, x in enumerate(…, start=1)` with n = 0 before; `not n` afterwards means no iteration
            for l, pol in lits:
                c, pp = F.canon_lit(l, pol)
                if c[0] == 'loopout' and c[1] == L.uid and _counts_iterations(L, c[2]):
                    emp = not pp
                if c[0] == 'cmp' and c[1] == '==' and ('const', 0) in (c[2], c[3]):
                    o = c[3] if c[2] == ('const', 0) else c[2]
                    if o[0] == 'loopout' and o[1] == L.uid and _counts_iterations(L, o[2]):
                        emp = pp
        apps = [x for x in events if x.kind == 'call' and x.a[0] == 'call' and x.a[2][0] == 'attr' and x.a[2][2] in ('append', 'add')
                and x.a[2][1][0] in ('list', 'set') and not x.a[2][1][2]
                and len(x.a[3]) == 1 and F.strip(x.a[3][0])[0] == 'sub' and F.strip(x.a[3][0])[2] == ('const', 'path')]
        if emp is True and len(apps) == 1:
            cl = F.sym_uid(apps[0].a[2][1])
            if res['chunkless'] in ('unset', cl):
                res['chunkless'] = cl
            else:
                res['chunkless'] = None
        elif emp is False and not apps:
            pass
        else:
            res['chunkless'] = None
        if chain:
            per_file[chain[-1][0].uid] = chain[-1][0]
    # iterations of the per-file loop that register a file but never reach the loop over its parts (a guard clause for the
    # files without chunks): they must be the ones that know there are no parts, and remember the path
    for PF in per_file.values():
        for q in PF.paths:
            if any(x.kind == 'loop' and _part_loop_var(x.a) is not None for x in q.events):
                continue
            registers = any(x.kind == 'store' and F.contains(F.strip(x.b), lambda t: t[0] == 'sub' and t[2] == ('const', 'metadata'))
                            for x in q.events)
            if not registers:
                continue
            lits = q.lits()
            xs = [t for l, _p in lits for t in F.subterms(l)
                  if (lambda u: u[0] == 'sub' and u[2] == ('const', 'chunks'))(F.strip(unwrap_iter(t[3][0] if (t[0] == 'call' and t[2] == ('name', 'sorted') and t[3]) else t)))]
            apps = [x for x in q.events if x.kind == 'call' and x.a[0] == 'call' and x.a[2][0] == 'attr' and x.a[2][2] in ('append', 'add')
                    and x.a[2][1][0] in ('list', 'set') and not x.a[2][1][2]
                    and len(x.a[3]) == 1 and F.strip(x.a[3][0])[0] == 'sub' and F.strip(x.a[3][0])[2] == ('const', 'path')]
            if emptiness(lits, xs) is True and len(apps) == 1 and res['chunkless'] in ('unset', F.sym_uid(apps[0].a[2][1])):
                res['chunkless'] = F.sym_uid(apps[0].a[2][1])
            else:
                res['chunkless'] = None
    return res if res['n'] else None


def _meta_pair(x):
    """x = D.pop(K) / D[K] / D.get(K) for a dict object D: (uid of D, stripped K) else None"""
    if x[0] == 'call' and x[2][0] == 'attr' and x[2][2] in ('pop', 'get') and len(x[3]) >= 1 and F.sym_uid(x[2][1]) is not None:
        return F.sym_uid(x[2][1]), F.strip(x[3][0])
    if x[0] == 'sub' and F.sym_uid(x[1]) is not None:
        return F.sym_uid(x[1]), F.strip(x[2])
    return None


def _finalisations(events):
    """(index, P, M) of the calls `…restore_metadata(P, M)` among the events (inlined or not)"""
    out = []
    for i, e in enumerate(events):
        cp = call_parts(e)
        if cp is not None and func_name(cp[0]) == 'restore_metadata' and len(cp[1]) == 2:
            out.append((i, cp[1][0], cp[1][1]))
    return out


def _truncations(events, P):
    """(index, size sym) of the events that set the length of the file at path P: os.truncate(P, n) / os.ftruncate /
    <file opened from P>.truncate(n)"""
    out = []
    for i, e in enumerate(events):
        cp = call_parts(e)
        if cp is None:
            continue
        f, args, _kw = cp
        if func_name(f) in ('truncate', 'ftruncate'):
            if f[0] == 'attr' and f[1] in (('name', 'os'),) and len(args) == 2 and F.mentions(args[0], P):
                out.append((i, args[1]))
            elif f[0] == 'attr' and f[1] != ('name', 'os') and len(args) == 1 and F.mentions(e.a[2][1], P):
                out.append((i, args[0]))
    return out


def restore_final_length(flow, path, plan):
    """every finalisation in the loader functions of this path truncates the file to SIZES[file path] first"""
    if plan is None or plan.get('sizes') in (None, 'unset'):
        return False
    seen = 0
    for node, paths in flow.units_below(path):
        for q in paths:
            for e, chain, i, events in walk(q.events):
                if e.kind != 'call':
                    continue
                cp = call_parts(e)
                if cp is None or func_name(cp[0]) != 'restore_metadata' or len(cp[1]) != 2:
                    continue
                P = cp[1][0]
                base = P[1] if P[0] == 'item' else None
                mp = _meta_pair(base) if base is not None else None
                if mp is None:
                    return False
                trs = [(j, s) for j, s in _truncations(events[:i], P)]
                good = [j for j, s in trs if s[0] == 'sub' and F.sym_uid(s[1]) == plan['sizes'] and F.strip(s[2]) == mp[1]]
                if not good:
                    return False
                # nothing changes the length after the final truncation (a later truncate to something else)
                if any(j > good[-1] for j, s in trs if j not in good):
                    return False
                seen += 1
    return seen > 0


def restore_chunkless(path, plan):
    """the files remembered as chunkless are created, set to length 0 and given their metadata at the top level"""
    if plan is None or plan.get('chunkless') in (None, 'unset'):
        return False
    loops = [e.a for e in path.events if e.kind == 'loop' and e.a.kind == 'for'
             and F.sym_uid(unwrap_iter(e.a.iter)) == plan['chunkless']]
    if len(loops) != 1:
        return False
    L = loops[0]
    its = [q for q in L.paths if q.status in ('run', 'continue')]
    if not its or any(q.status not in ('run', 'continue') for q in L.paths):
        return False
    for q in its:
        fins = _finalisations(q.events)
        if len(fins) != 1:
            return False
        i, P, M = fins[0]
        if P[0] != 'item' or P[2] != 0 or M[0] != 'item' or M[2] != 1 or not F.same(P[1], M[1]):
            return False
        mp = _meta_pair(P[1])
        if mp is None or mp[1] != ('elem', L.uid):
            return False
        before = q.events[:i]
        if not any(F.is_const(s, 0) for _, s in _truncations(before, P)):
            return False
        if not _creates(before, P):
            return False
    return True


def _creates(events, P):
    """the file at P certainly exists afterwards: an `open` of P that did not raise / touch / write_bytes"""
    for i, e in enumerate(events):
        cp = call_parts(e)
        if cp is None or e.c == 'inlined':
            continue
        f, args, _kw = cp
        nm = func_name(f)
        raised = i + 1 < len(events) and events[i + 1].kind == 'raised'
        if raised:
            continue
        if f[0] == 'attr' and nm in ('touch', 'write_bytes', 'write_text') and F.same(e.a[2][1], P):
            return True
        mode = None
        if f[0] == 'attr' and nm == 'open' and F.same(e.a[2][1], P):
            mode = args[0] if args else _kw.get('mode', ('const', 'r'))
        elif f == ('name', 'open') and args and F.same(args[0], P):
            mode = args[1] if len(args) > 1 else _kw.get('mode', ('const', 'r'))
        if mode is not None and mode[0] == 'const' and isinstance(mode[1], str):
            if set(mode[1]) & set('wax'):
                return True
            # a successful open for reading / updating means the file was there — provided the failure is handled somewhere
            if any(fr[0] == 'try' for fr in e.ctx):
                return True
    return False


def finalise_under_lock(flow, path):
    """restore's loaders: the test that triggers finalisation of a file was evaluated inside the same `with <lock>` block
    that removed the chunk's digest from the file's pending set, after the removal"""
    seen = 0
    for node, paths in flow.units_below(path):
        for q in paths:
            for e, chain, i, events in walk(q.events):
                cp = call_parts(e) if e.kind == 'call' else None
                if cp is None or func_name(cp[0]) != 'restore_metadata':
                    continue
                # removal of this chunk from a pending set on this (iteration) path
                rem = [(j, x) for j, x in enumerate(events[:i]) if x.kind == 'call' and x.a[0] == 'call' and x.a[2][0] == 'attr'
                       and x.a[2][2] in ('remove', 'discard')]
                if len(rem) != 1:
                    return False
                j, r = rem[0]
                pending = r.a[2][1]
                locks = [f for f in r.ctx if f[0] == 'with']
                if not locks:
                    return False
                # the deciding literal: emptiness of the pending set, between the removal and the finalisation
                dec = [(k, x) for k, x in enumerate(events[:i]) if k > j and x.kind == 'cond'
                       and emptiness([(x.a, x.b)], [pending]) is True]
                if len(dec) != 1:
                    return False
                k, d = dec[0]
                # where the state of the pending set was actually read: the locals of the test that were computed from it,
                # the calls on it (len(…)) inside the literal, or else the test itself
                where = []
                t = d.node.test if isinstance(d.node, (ast.If, ast.IfExp, ast.While)) else None
                for nm in ({n.id for n in ast.walk(t) if isinstance(n, ast.Name)} if t is not None else set()):
                    binds = [x for x in events[:k] if x.kind == 'bind' and x.a == nm]
                    if binds and F.mentions(binds[-1].b, pending):
                        where.append(binds[-1])
                for tcall in F.subterms(d.a):
                    if tcall[0] == 'call' and F.sym_uid(tcall) is not None and F.mentions(tcall, pending):
                        where += [x for x in events[:k] if x.kind == 'call' and F.sym_uid(x.a) == F.sym_uid(tcall)]
                # a helper that returns the test: it was read where the helper returned it
                lit = F.canon_lit(d.a, d.b)[0]
                where += [x for x in events[:k] if x.kind == 'return' and x.a is not None and any(fr[0] == 'inline' for fr in x.ctx)
                          and F.mentions(x.a, pending) and F.canon_lit(x.a, True)[0] == lit]
                if not where:
                    where = [d]
                for w in where:
                    if events.index(w) < j or locks[-1] not in w.ctx:
                        return False
                seen += 1
    return seen > 0


# ---- names of the fields of the private record classes of snapshot (a rename of one of them changes nothing)
VOCAB_DEFAULT = {'f_start': 'stream_start', 'f_end': 'stream_end', 'f_path': 'path', 'f_digest': 'digest', 'f_meta': 'metadata',
                 's_files': 'files', 's_current': 'current_file',
                 'c_start': 'stream_start', 'c_end': 'stream_end', 'c_index': 'index', 'c_counter': 'counter'}
VOCAB = dict(VOCAB_DEFAULT)


def _ctor_kwargs(flow, call):
    """keyword view of a constructor call of a module class: positional arguments named after the class's annotated fields"""
    f = call[2]
    kws = dict(call[4])
    if call[3] and f[0] == 'class':
        for st in flow.mod.tree.body:
            if isinstance(st, ast.ClassDef) and st.name == f[1]:
                fields = [x.target.id for x in st.body if isinstance(x, ast.AnnAssign) and isinstance(x.target, ast.Name)]
                for nm, a in zip(fields, call[3]):
                    kws.setdefault(nm, a)
    return kws


def infer_vocabulary(flow, path):
    """which attribute plays which role, read from how the records are built and updated:
    the per-file record is created in the generator that streams the files with two equal offsets (start, end) and str(path);
    `end` is the one advanced by len(piece) in the read loop; the state appends (record.start, record) to its list of files and
    keeps the record as the current one; the digest comes from <hasher>.digest(), the other attribute stored is the metadata.
    The per-chunk record is built with end = start + len(piece), a counter that the state increments, an index into the table."""
    v = dict(VOCAB_DEFAULT)
    try:
        for node, paths in flow.units_below(path, every=True):
            for q in paths:
                evs = [e for e, _c, _i, _l in walk(q.events)]
                for e in evs:
                    if not (e.kind == 'call' and e.a[0] == 'call' and e.a[2][0] == 'class' and e.c != 'inlined'):
                        continue
                    kws = _ctor_kwargs(flow, e.a)
                    if F.is_generator(node):
                        same = [(a, b) for a in kws for b in kws if a < b and F.strip(kws[a]) == F.strip(kws[b]) and kws[a][0] == 'attr']
                        strs = [a for a in kws if kws[a][0] == 'call' and kws[a][2] == ('name', 'str')]
                        if len(same) != 1 or len(strs) != 1 or len(kws) != 3:
                            continue
                        rec = e.a
                        a, b = same[0]
                        augs = {F.strip(x.a)[2] for x in evs if x.kind == 'aug' and x.a[0] == 'attr' and F.same(x.a[1], rec) and x.b == '+'
                                and x.c[0] == 'call' and x.c[2] == ('name', 'len')}
                        if augs == {a}:
                            a, b = b, a
                        if augs != {b}:
                            continue
                        v['f_start'], v['f_end'], v['f_path'] = a, b, strs[0]
                        for x in evs:
                            if x.kind == 'store' and x.a[0] == 'attr' and F.same(x.b, rec):
                                v['s_current'] = x.a[2]
                            if x.kind == 'call' and x.a[0] == 'call' and x.a[2][0] == 'attr' and x.a[2][2] == 'append' and x.a[2][1][0] == 'attr' \
                                    and len(x.a[3]) == 1 and x.a[3][0][0] == 'tuple' and len(x.a[3][0][1]) == 2 and F.same(x.a[3][0][1][1], rec):
                                v['s_files'] = x.a[2][1][2]
                            if x.kind == 'store' and x.a[0] == 'attr' and F.same(x.a[1], rec):
                                if x.b[0] == 'call' and x.b[2][0] == 'attr' and x.b[2][2] in ('digest', 'hexdigest', 'finalize'):
                                    v['f_digest'] = x.a[2]
                                else:
                                    v['f_meta'] = x.a[2]
                    else:
                        ends = [a for a in kws if kws[a][0] == 'bin' and kws[a][1] == '+' and kws[a][3][0] == 'call' and kws[a][3][2] == ('name', 'len')
                                and any(F.strip(kws[b]) == F.strip(kws[a][2]) for b in kws if b != a)]
                        if len(ends) != 1:
                            continue
                        v['c_end'] = ends[0]
                        v['c_start'] = [b for b in kws if b != ends[0] and F.strip(kws[b]) == F.strip(kws[ends[0]][2])][0]
                        for a, val in kws.items():
                            sv = F.strip(val)
                            if sv[0] == 'attr' and any(x.kind == 'aug' and F.strip(x.a) == sv and x.b == '+' and F.is_const(x.c, 1) for x in evs):
                                v['c_counter'] = a
                            if (sv[0] == 'sub' and sv[1][0] == 'dict') or (sv[0] == 'call' and sv[2] == ('name', 'len') and len(sv[3]) == 1 and sv[3][0][0] == 'dict'):
                                v['c_index'] = a
    except (F.Unsupported, KeyError, IndexError, TypeError):
        return dict(VOCAB_DEFAULT)
    return v


# ---- snapshot: files without any chunk
def membership(q, k, d):
    """True / False / None: this path knows that key k is / is not in dict d (membership test, d.get(k) is None,
    d[k] evaluated with or without KeyError)"""
    k, sd = F.strip(k), F.strip(d)
    for c, p in F.known(q.lits()):
        if c == ('cmp', 'in', k, sd):
            return p
        if c[0] == 'cmp' and c[1] == 'is' and ('const', None) in (c[2], c[3]):
            other = c[3] if c[2] == ('const', None) else c[2]
            if other[0] == 'call' and other[2] == ('attr', sd, 'get') and other[3] == (k,):
                return not p
    for i, e in enumerate(q.events):
        if e.kind == 'raised' and e.b is not None and F.contains(F.strip(e.b), lambda t: t == ('sub', sd, k)) \
                and i + 1 < len(q.events) and q.events[i + 1].kind == 'except' \
                and q.events[i + 1].a is not None and 'KeyError' in F.show(q.events[i + 1].a):
            return False
        if e.kind in ('bind', 'eval') and F.strip(e.b if e.kind == 'bind' else e.a) == ('sub', sd, k):
            return True
    return None


def _chunkless_record(k, v, holder):
    """k == <file>.path and v == {'path': k, 'chunks': [], 'digest': <file>.digest, 'metadata': <file>.metadata} with <file>
    derived from `holder` (the loop element)"""
    k, v = F.strip(k), F.strip(v)
    if not (k[0] == 'attr' and k[2] == VOCAB['f_path'] and F.mentions(k[1], holder)):
        return False
    fs = k[1]
    items = dict_items(v)
    return items is not None and set(items) == {'path', 'chunks', 'digest', 'metadata'} and items['path'] == k \
        and items['chunks'] == ('list', 0, ()) and items['digest'] == ('attr', fs, VOCAB['f_digest']) \
        and items['metadata'] == ('attr', fs, VOCAB['f_meta'])


def _listed_afterwards(later, uid):
    """the values (or items) of the dict with identity `uid` are read by one of these later events (evaluated there, not a
    value computed earlier and only mentioned)"""
    def reads(t):
        return t[0] == 'call' and t[2][0] == 'attr' and t[2][2] in ('values', 'items') and F.sym_uid(t[2][1]) == uid
    for x in later:
        if x.kind != 'call':
            continue
        if x.a[0] == 'call' and reads(x.a):
            return True
        if x.a[0] == 'comp' and F.contains(x.a, reads):
            return True
    return False


def records_chunkless(path):
    """after the workers are done every streamed file that has no entry gets one with its digest / metadata and no chunks,
    in the dict whose values become the snapshot's file list"""
    # only what happens after the workers have been awaited counts (before that the list of streamed files is incomplete)
    joined = [i for i, e in enumerate(path.events) if e.kind == 'call' and e.a[0] == 'call' and func_name(F.strip(e.a[2])) in ('gather', 'wait', 'as_completed')]
    if not joined:
        return False
    for i, e in enumerate(path.events):
        if i < joined[0]:
            continue
        # the same as one statement: D.update({f.path: {…} for _, f in state.files if f.path not in D})
        if e.kind == 'call' and e.a[0] == 'call' and e.a[2][0] == 'attr' and e.a[2][2] == 'update' and len(e.a[3]) == 1 \
                and e.a[3][0][0] == 'comp' and e.a[3][0][2] == 'dict' and len(e.a[3][0][4]) == 1:
            d, comp = e.a[2][1], e.a[3][0]
            (it, elem, conds), (k, v) = comp[4][0], comp[3]
            src = F.strip(unwrap_iter(it))
            if src[0] == 'attr' and src[2] == VOCAB['s_files'] and F.sym_uid(d) is not None and _chunkless_record(k, v, elem) \
                    and [F.canon_lit(c, True) for c in conds] == [(('cmp', 'in', F.strip(k), F.strip(d)), False)] \
                    and _listed_afterwards(path.events[i + 1:], F.sym_uid(d)):
                return True
        if e.kind != 'loop' or e.a.kind != 'for':
            continue
        L = e.a
        it = F.strip(unwrap_iter(L.iter))
        prefilter = []
        if it[0] == 'call' and it[2] == ('name', 'map') and len(it[3]) == 2 and key_body(None, it[3][0]) == ('sub', ('bound', 0, 0), ('const', 1)):
            it = F.strip(unwrap_iter(it[3][1]))          # the loop sees the second component of every entry
        if it[0] == 'comp' and it[2] in ('list', 'gen') and len(it[4]) == 1 and len(it[3]) == 1:
            # [f for _, f in state.files if f.path not in D]: the loop sees the files themselves; the filter is checked below
            (src, celem, conds), elt = it[4][0], it[3][0]
            src = F.strip(unwrap_iter(src))
            if src[0] == 'attr' and src[2] == VOCAB['s_files'] and F.mentions(elt, celem):
                it, prefilter = src, [(c, F.strip(elt)) for c in conds]
        if not (it[0] == 'attr' and it[2] == VOCAB['s_files']):
            continue
        if any(q.status not in ('run', 'continue') for q in L.paths):
            continue
        d = key = None
        ok = True
        quiet = []
        for q in L.paths:
            sts = [x for x in q.events if x.kind == 'store' and x.a[0] == 'sub' and F.sym_uid(x.a[1]) is not None]
            sdf = [x for x in q.events if x.kind == 'call' and x.a[0] == 'call' and x.a[2][0] == 'attr' and x.a[2][2] == 'setdefault'
                   and len(x.a[3]) == 2 and F.sym_uid(x.a[2][1]) is not None]
            cands = [(x.a[1], x.a[2], x.b, False) for x in sts] + [(x.a[2][1], x.a[3][0], x.a[3][1], True) for x in sdf]
            if not cands:
                quiet.append(q)
                continue
            if len(cands) > 1:
                ok = False
                break
            D, K, V, is_sd = cands[0]
            if not _chunkless_record(K, V, ('elem', L.uid)):
                ok = False
                break
            # recorded only for files that have no entry yet (setdefault does that by itself)
            if not is_sd and membership(q, K, D) is not False:
                ok = False
                break
            if d is not None and not (F.same(d, D) and key == F.strip(K)):
                ok = False
                break
            d, key = D, F.strip(K)
        if not ok or d is None:
            continue
        # an iteration that records nothing must know that the file already has an entry
        if any(membership(q, key, d) is not True for q in quiet):
            continue
        # a filter in front of the loop may only drop files that already have an entry
        if any(F.canon_lit(c, True) != (('cmp', 'in', ('attr', elt, VOCAB['f_path']), F.strip(d)), False) for c, elt in prefilter):
            continue
        # the dict is what the snapshot lists afterwards
        if _listed_afterwards(path.events[i + 1:], F.sym_uid(d)):
            return True
    return False


# ---- the padding between files
def _pad_remainder(p, lits):
    """p == A - (len % A) on a path that knows len % A != 0 (the other spelling of -len % A): (F, A), else None"""
    p = F.strip(p)
    ln = ('bin', '-', ('attr', F.Cap('f'), VOCAB['f_end']), ('attr', F.Cap('f'), VOCAB['f_start']))
    c = F.match(p, ('bin', '-', F.Cap('a'), ('bin', '%', ln, F.Cap('a'))))
    if c is None:
        return None
    rem = p[3]
    for l, pol in F.known(lits):
        if (l == rem and pol) or (l[0] == 'cmp' and l[1] == '==' and rem in (l[2], l[3]) and ('const', 0) in (l[2], l[3]) and not pol) \
                or (l == ('cmp', '<', ('const', 0), rem) and pol):
            return c['f'], c['a']
    return None


def _no_remainder(lits):
    """the path knows that (end - start) % alignment == 0 for some file"""
    ln = ('bin', '-', ('attr', F.Cap('f'), VOCAB['f_end']), ('attr', F.Cap('f'), VOCAB['f_start']))
    for l, pol in F.known(lits):
        if F.match(l, ('bin', '%', ln, F.Cap('a'))) is not None and not pol:
            return True
        if l[0] == 'cmp' and l[1] == '==' and pol and ('const', 0) in (l[2], l[3]):
            other = l[3] if l[2] == ('const', 0) else l[2]
            if F.match(other, ('bin', '%', ln, F.Cap('a'))) is not None:
                return True
    return False


def _pad_len(p, caps=None):
    """p == -(F.stream_end - F.stream_start) % A  (or (A - len % A) % A): returns (F, A) stripped, else None"""
    p = F.strip(p)
    ln = ('bin', '-', ('attr', F.Cap('f'), VOCAB['f_end']), ('attr', F.Cap('f'), VOCAB['f_start']))
    for pat in (('bin', '%', ('un', '-', ln), F.Cap('a')),
                ('bin', '%', ('bin', '-', F.Cap('a'), ('bin', '%', ln, F.Cap('a'))), F.Cap('a')),
                # round the length up to a multiple, minus the length: -(-len // a) * a - len
                ('bin', '-', ('bin', '*', ('un', '-', ('bin', '//', ('un', '-', ln), F.Cap('a'))), F.Cap('a')), ln)):
        c = F.match(p, pat)
        if c is not None:
            return c['f'], c['a']
    return None


def _zero_bytes(v):
    """n when v is n zero bytes: bytes(n), b'\\0' * n, bytearray(n)"""
    if v[0] == 'call' and v[2] in (('name', 'bytes'), ('name', 'bytearray')) and len(v[3]) == 1 and not v[4]:
        return v[3][0]
    if v[0] == 'bin' and v[1] == '*':
        for z, n in ((v[2], v[3]), (v[3], v[2])):
            if z == ('const', b'\x00'):
                return n
    return None


def padding_shape(flow, path):
    """the generator feeding the chunker yields `-(size of the previous file) % alignment` zero bytes between files,
    exactly when that number is non-zero (and there is a previous file and an alignment)"""
    found = 0
    for node, paths in flow.units_below(path):
        if not F.is_generator(node):
            continue
        for q in paths:
            for e in q.events:
                if e.kind != 'loop' or e.a.kind != 'for':
                    continue
                L = e.a
                pads = 0
                consistent = True
                for it in L.paths:
                    ys = []
                    for x in it.events:
                        if x.kind != 'yield':
                            continue
                        n = _zero_bytes(x.a)
                        pl = (_pad_len(n) or _pad_remainder(n, it.lits())) if n is not None else None
                        if pl is not None:
                            ys.append((x, pl))
                    if len(ys) > 1:
                        consistent = False
                        break
                    lits = it.lits()
                    if ys:
                        x, (fsym, asym) = ys[0]
                        if not (asym[0] == 'attr' and asym[2] == 'alignment'):
                            consistent = False
                            break
                        pads += 1
                        continue
                    # no padding on this iteration: allowed only when it is known not to be needed
                    need = False if _no_remainder(lits) else None
                    for c, p in F.known(lits):
                        if c[0] == 'attr' and c[2] == 'alignment' and not p:
                            need = False
                        if _pad_len(c) is not None and not p:
                            need = False
                        if not p and F.match(c, ('bin', '-', F.Cap('a'), ('bin', '%', ('bin', '-', ('attr', F.Cap('f'), VOCAB['f_end']),
                                                                                  ('attr', F.Cap('f'), VOCAB['f_start'])), F.Cap('a')))) is not None:
                            need = False       # a - len % a is never 0: this path cannot happen
                        if c[0] == 'cmp' and c[1] == '==' and p and ((F.is_const(c[2], 0) and _pad_len(c[3]) is not None)
                                                                    or (F.is_const(c[3], 0) and _pad_len(c[2]) is not None)):
                            need = False
                        if c[0] == 'cmp' and c[1] == '<' and not p and F.is_const(c[2], 0) and _pad_len(c[3]) is not None:
                            need = False       # not (0 < padding)
                        if c[0] == 'cmp' and c[1] == '<' and p and F.is_const(c[3], 1) and _pad_len(c[2]) is not None:
                            need = False       # padding < 1
                        if c[0] == 'cmp' and c[1] == 'is' and (F.is_const(c[2]) and c[2][1] is None or F.is_const(c[3]) and c[3][1] is None) and p:
                            other = c[3] if F.is_const(c[2]) else c[2]
                            if other[0] == 'attr' and other[2] == VOCAB['s_current']:
                                need = False
                    if need is not False:
                        # iterations that do not reach the file at all (e.g. skipped entries) would also land here
                        consistent = False
                        break
                if consistent and pads:
                    found += 1
                elif pads:
                    return False
    return found > 0


# ---- the transfer piece size under a rate limit
def _divisor(s):
    """s == max(rate_limit // (concurrent * N), 1) (any operand order; a // b // c accepted): N, else None"""
    s = F.strip(s)
    if s[0] == 'bool' and s[1] == 'or' and len(s[2]) == 2 and F.is_const(s[2][1], 1):
        s = ('call', 0, ('name', 'max'), s[2], ())        # n or 1 == max(n, 1) for n >= 0
    if not (s[0] == 'call' and s[2] == ('name', 'max') and len(s[3]) == 2 and not s[4]):
        return None
    a, b = s[3]
    if F.is_const(a, 1):
        a, b = b, a
    if not F.is_const(b, 1):
        return None

    def conc(t):
        return t == ('ctor', 'concurrent') or (t[0] == 'attr' and t[1] == ('self',) and 'concurrent' in t[2])
    if a[0] == 'bin' and a[1] == '//':
        num, den = a[2], a[3]
        if num[0] == 'bin' and num[1] == '//':        # (r // x) // y
            x, y = num[3], den
            num = num[2]
        elif den[0] == 'bin' and den[1] == '*':
            x, y = den[2], den[3]
        else:
            return None
        if num != ('param', 'rate_limit'):
            return None
        if conc(y):
            x, y = y, x
        if conc(x) and y[0] == 'const' and type(y[1]) is int and y[1] > 0:
            return y[1]
    return None


STREAM_ARG = {'upload_stream': 3, 'download_stream': 2}


def rate_divisors(flow):
    """{command: set of N or 'other'} over every rate-limited path that hands a piece size to backend.*_stream"""
    out = {}
    for name, node in flow.mod.classes.get(flow.cls, {}).items():
        a = node.args
        if 'rate_limit' not in [x.arg for x in a.args + a.kwonlyargs]:
            continue
        vals = set()
        for p in representatives(returns(flow.top(name))):
            units = [(node, [p])] + list(flow.units_below(p, every=True))
            for _n, paths in units:
                for q in paths:
                    for e, chain, i, events in walk(q.events):
                        cp = call_parts(e) if e.kind == 'call' else None
                        if cp is None:
                            continue
                        f, args, kw = cp
                        args = list(args)
                        if len(args) == 1 and args[0][0] == 'star' and args[0][1][0] == 'tuple':
                            args = list(args[0][1][1])
                        sname = None
                        if f[0] == 'attr' and f[2] in STREAM_ARG and f[1] in (('ctor', 'backend'), ('attr', ('self',), 'backend')):
                            sname, rest = f[2], args
                        else:
                            for k, x in enumerate(args):
                                sx = F.strip(x)
                                if sx[0] == 'attr' and sx[2] in STREAM_ARG and sx[1] in (('ctor', 'backend'), ('attr', ('self',), 'backend')):
                                    sname, rest = sx[2], args[k + 1:]
                                    break
                        if sname is None:
                            continue
                        if 'chunk_size' in kw:
                            piece = kw['chunk_size']
                        elif len(rest) > STREAM_ARG[sname]:
                            piece = rest[STREAM_ARG[sname]]
                        else:
                            piece = None
                        if piece is None:
                            vals.add('default')
                            continue
                        if F.contains(piece, lambda t: t == ('param', 'rate_limit')):
                            n = _divisor(piece)
                            vals.add(n if n is not None else 'other')
                        else:
                            # the unlimited value: must be on a path that knows there is no limit
                            nolimit = False
                            for l, pol in p.lits() + q.lits():
                                c, pp = F.canon_lit(l, pol)
                                if (c == ('cmp', 'is', ('const', None), ('param', 'rate_limit')) and pp) or (c == ('param', 'rate_limit') and not pp):
                                    nolimit = True
                            vals.add('default' if nolimit else 'other')
        out[name] = vals
    return out


# ---- the snapshot cache
def _is_cache_dir(t):
    return t == ('ctor', 'cache_directory') or (t[0] == 'attr' and t[1] == ('self',) and 'cache' in t[2])


def _cache_reads(events):
    """(index, sym) of reads of a file below the cache directory that did not raise"""
    out = []
    for i, e in enumerate(events):
        if e.kind != 'call' or e.a[0] != 'call' or e.c == 'inlined':
            continue
        f = e.a[2]
        nm = func_name(F.strip(f))
        if nm in ('read_bytes', 'read_text', 'read') and f[0] == 'attr' and F.contains(f[1], _is_cache_dir):
            if i + 1 < len(events) and events[i + 1].kind == 'raised':
                continue
            out.append((i, e.a))
    return out


def cache_verified(flow):
    """no method of the class uses the contents of a cached file before comparing their hash with the expected digest"""
    mod = flow.mod
    meths = mod.classes.get(flow.cls, {})
    # methods that can reach the cache directory at all (syntactic call graph over self.<method>(…))
    attrs = {a for a, v in mod.ctor.get(flow.cls, {}).items() if v == ('ctor', 'cache_directory')}
    touch, calls = set(), {}
    for name, node in meths.items():
        calls[name] = {n.attr for n in ast.walk(node) if isinstance(n, ast.Attribute) and isinstance(n.value, ast.Name)
                       and n.value.id == 'self' and n.attr in meths}
        if any(isinstance(n, ast.Attribute) and isinstance(n.value, ast.Name) and n.value.id == 'self'
               and (n.attr in attrs or 'cache' in n.attr) and n.attr not in meths for n in ast.walk(node)):
            touch.add(name)
    reach = set(touch)
    changed = True
    while changed:
        changed = False
        for name in meths:
            if name not in reach and calls[name] & reach:
                reach.add(name)
                changed = True
    verified = 0
    passthrough = set()
    for name in sorted(reach):
        node = meths[name]
        units = []
        top = flow.top(name)
        units.append((node, top))
        for p in returns(top)[:1] or top[:1]:
            units += list(flow.units_below(p))
        for unode, paths in units:
            for q in paths:
                for evs in _event_lists(q.events):
                    for i, cr in _cache_reads(evs):
                        uid = cr[1]
                        checked_at = None
                        for j in range(i + 1, len(evs)):
                            x = evs[j]
                            if x.kind == 'cond':
                                if checked_at is None and _digest_checked(evs[i + 1:j + 1], cr):
                                    checked_at = j
                                continue
                            use = _uses(x, uid)
                            if use is None:
                                continue
                            if use == 'return' and not any(fr[0] == 'inline' for fr in x.ctx):
                                if checked_at is None:
                                    passthrough.add((name, unode.name))
                                else:
                                    verified += 1
                                continue
                            if use == 'return':
                                continue
                            if checked_at is None:
                                notes['cacheVerified'] = f'{name}: cached contents used before the digest check ({F.show(x.a)[:120]})'
                                return False
                            verified += 1
    # a method that hands the raw contents on must have been followed wherever it is called
    raw_names = {m for m, u in passthrough}
    for name in sorted(reach):
        for q in flow.top(name):
            for e, _c, _i, _e in walk(q.events):
                if e.kind == 'call' and e.a[0] == 'call' and e.c != 'inlined' and e.a[2][0] == 'method' and e.a[2][2] in raw_names:
                    notes['cacheVerified'] = f'{name}: call of {e.a[2][2]} (raw cache read) could not be followed'
                    return False
    # … and must only ever be called directly (so that its callers were analysed with it)
    for mname, uname in passthrough:
        if mname != uname:
            notes['cacheVerified'] = f'{mname}.{uname} returns unverified cached contents'
            return False
        for other in meths.values():
            for n in ast.walk(other):
                if isinstance(n, ast.Attribute) and isinstance(n.value, ast.Name) and n.value.id == 'self' and n.attr == mname:
                    par = [c for c in ast.walk(other) if isinstance(c, ast.Call) and c.func is n]
                    if not par:
                        notes['cacheVerified'] = f'{mname} (raw cache read) is passed around'
                        return False
        if meths[mname].decorator_list or F.is_generator(meths[mname]):
            return False
    return verified > 0


def _digest_checked(events, cr):
    """the literals of these events imply hash_digest(cr) == <something that is not derived from cr>, for THIS read"""
    uid = cr[1]
    mine = [(e.a, e.b) for e in events if e.kind == 'cond' and F.contains(e.a, lambda t: F.sym_uid(t) == uid and t[0] == 'call')]
    scr = F.strip(cr)
    for c, pol in F.known(mine):
        if not pol:
            continue
        pairs = []
        if c[0] == 'cmp' and c[1] == '==':
            pairs = [(c[2], c[3]), (c[3], c[2])]
        elif c[0] == 'call' and func_name(c[2]) == 'compare_digest' and len(c[3]) == 2:
            pairs = [(c[3][0], c[3][1]), (c[3][1], c[3][0])]
        for h, d in pairs:
            if h[0] == 'call' and func_name(h[2]) == 'hash_digest' and len(h[3]) == 1 and h[3][0] == scr \
                    and not F.contains(d, lambda t: t == scr) and d[0] != 'const':
                return True
    return False


def _event_lists(events):
    """the event list of a path and of every loop iteration below it"""
    yield events
    for e in events:
        if e.kind == 'loop':
            for q in e.a.paths:
                yield from _event_lists(q.events)


LOGGERS = ('logger', 'logging', 'log')


def _uses(x, uid):
    """how event x uses the value with evaluation identity `uid`: None / 'return' / 'use'"""
    def has(t):
        return F.contains(t, lambda s: F.sym_uid(s) == uid and s[0] == 'call')
    if x.kind == 'return':
        return 'return' if x.a is not None and has(x.a) else None
    if x.kind == 'yield':
        return 'use' if has(x.a) else None
    if x.kind in ('store', 'aug'):
        return 'use' if has(x.b if x.kind == 'store' else x.c) or has(x.a) else None
    if x.kind == 'loop':
        for q in x.a.paths:
            for y, _c, _i, _e in walk(q.events):
                if y.kind != 'cond' and _uses(y, uid) is not None:
                    return 'use'
        return None
    if x.kind == 'call' and x.a[0] == 'comp':
        return 'use' if has(x.a) else None
    if x.kind == 'call' and x.a[0] == 'call':
        if x.c == 'inlined':
            return None          # the helper's own events follow and are looked at one by one
        f = F.strip(x.a[2])
        root = f
        while root[0] == 'attr':
            root = root[1]
        if root[0] == 'name' and root[1] in LOGGERS:
            return None
        if func_name(f) in ('hash_digest', 'len', 'isinstance', 'type', 'id'):
            return None
        if any(has(a) for a in x.a[3]) or any(has(v) for _, v in x.a[4]) or has(x.a[2]):
            return 'use'
    return None


# ---- integer / Boolean syms → Lean (through cexpr.translate)
def sym_src(x, leaf):
    """source text (Python syntax) of an integer / Boolean sym; `leaf(sym)` names the atoms.  Raises Untranslatable."""
    x = F.strip(x)
    nm = leaf(x)
    if nm is not None:
        return nm
    k = x[0]
    if k == 'const' and type(x[1]) is int and x[1] >= 0:
        return str(x[1])
    if k == 'bin' and x[1] in ('+', '-', '*', '//', '%'):
        return f'({sym_src(x[2], leaf)} {x[1]} {sym_src(x[3], leaf)})'
    if k == 'bin' and x[1] == '&' and x[3][0] == 'const' and type(x[3][1]) is int and x[3][1] < 0:
        return f'({sym_src(x[2], leaf)} & -{-x[3][1]})'
    if k == 'cmp' and x[1] in ('<', '<=', '>', '>=', '==', '!='):
        return f'({sym_src(x[2], leaf)} {x[1]} {sym_src(x[3], leaf)})'
    if k == 'bool':
        return '(' + f' {x[1]} '.join(sym_src(a, leaf) for a in x[2]) + ')'
    if k == 'not':
        return f'(not {sym_src(x[1], leaf)})'
    if k == 'call' and x[2] in (('name', 'max'), ('name', 'min')) and len(x[3]) == 2 and not x[4]:
        return f'{x[2][1]}({sym_src(x[3][0], leaf)}, {sym_src(x[3][1], leaf)})'
    raise Untranslatable(f'not an integer expression: {F.show(x)[:80]}')


def neg_cmp(x):
    """the negation of a comparison sym as a comparison"""
    x = F.strip(x)
    if x[0] == 'not':
        return x[1]
    if x[0] == 'cmp' and x[1] in F.NEG_CMP:
        return ('cmp', F.NEG_CMP[x[1]], x[2], x[3])
    return ('not', x)


# ---- snapshot: attribution of a finished chunk to the files it covers
def chunk_done_shape(flow, path):
    """{'bisectKey', 'stopScan', 'partStart', 'partEndAbs', 'partEndBase', 'fileComplete'} (Lean terms) read from the function
    that walks the streamed files backwards from the bisection point of a chunk.  Raises on anything else."""
    last = None
    for node, paths in flow.units_below(path, every=True):
        for q in paths:
            bis = [e for e in q.events if e.kind == 'call' and e.a[0] == 'call' and func_name(F.strip(e.a[2])) == 'bisect_left']
            if len(bis) != 1 or q.status != 'return':
                continue
            try:
                return _chunk_done_one(node, q, bis[0])
            except (Untranslatable, AssertionError) as e:
                last = e
    raise Untranslatable(f'chunk attribution not recognised: {last!r}')


def _chunk_done_one(node, q, bis):
    params = [a.arg for a in node.args.posonlyargs + node.args.args]
    assert len(params) == 1, 'one parameter (the chunk) expected'
    C = ('param', params[0])
    b = bis.a
    assert len(b[3]) == 2 and not b[4], 'bisect_left(files, key)'
    files, key = F.strip(b[3][0]), b[3][1]
    assert files[0] == 'attr' and files[2] == VOCAB['s_files'], 'bisects the list of streamed files'
    assert key[0] == 'tuple' and len(key[1]) == 1, 'bisection key is a 1-tuple'
    sb = F.strip(b)
    # the loop walks the indices bisect-1 … 0 (or the entries themselves, reversed)
    loops = [e.a for e in q.events if e.kind == 'loop' and e.a.kind == 'for']
    L = None
    for cand in loops:
        it = F.strip(cand.iter)
        down = ('call', 0, ('name', 'range'), (('bin', '-', sb, ('const', 1)), ('const', -1), ('const', -1)), ())
        rev = [('call', 0, ('name', 'reversed'), (('call', 0, ('name', 'range'), (sb,), ()),), ()),
               ('call', 0, ('name', 'reversed'), (('call', 0, ('name', 'range'), (('const', 0), sb), ()),), ())]
        ent = ('call', 0, ('name', 'reversed'), (('sub', files, ('slice', ('const', None), sb, ('const', None))),), ())
        if it == down or it in rev:
            L, entry = cand, ('sub', files, ('elem', cand.uid))
        elif it == ent:
            L, entry = cand, ('elem', cand.uid)
    assert L is not None, 'no backwards walk from the bisection point'
    fsym = ('item', entry, 1)
    last = ('sub', entry, ('const', -1))        # the entries are (offset, file) pairs: entry[-1] is entry[1]
    q = _rewrite_paths(L, last, fsym)

    def leaf(x):
        if x[0] == 'attr' and x[1] == fsym and x[2] in (VOCAB['f_start'], VOCAB['f_end']):
            return 'fs' if x[2] == VOCAB['f_start'] else 'fe'
        if x[0] == 'attr' and x[1] == C and x[2] in (VOCAB['c_start'], VOCAB['c_end']):
            return 'cs' if x[2] == VOCAB['c_start'] else 'ce'
        return None
    names = {'fs': ('fs', 'nat'), 'fe': ('fe', 'nat'), 'cs': ('cs', 'nat'), 'ce': ('ce', 'nat')}
    got = {'bisectKey': translate(sym_src(key[1][0], leaf), names, 'nat')}
    # stop condition: the iterations that `break` do so on exactly one test, made before anything else happens
    brk = [p for p in L.paths if p.status == 'break']
    go = [p for p in L.paths if p.status in ('run', 'continue')]
    assert brk and go and len(brk) + len(go) == len(L.paths), 'iterations either stop the walk or attribute'
    stops = set()
    for p in brk:
        conds = [e for e in p.events if e.kind == 'cond']
        assert len(conds) == 1 and not any(e.kind in ('store', 'aug', 'del') or (e.kind == 'call' and e.c != 'inlined')
                                           for e in p.events), 'stop test comes first'
        stops.add(F.canon_lit(conds[0].a, conds[0].b))
    assert len(stops) == 1
    stop_c, stop_p = next(iter(stops))
    for p in go:
        first = [e for e in p.events if e.kind == 'cond'][0]
        assert F.canon_lit(first.a, first.b) == (stop_c, not stop_p), 'the other iterations passed the stop test'
    raw = [e for e in brk[0].events if e.kind == 'cond'][0]
    stop_sym = raw.a if raw.b else neg_cmp(raw.a)
    got['stopScan'] = translate(sym_src(stop_sym, leaf), names, 'bool')
    # the reference appended to the file's chunk list
    part = None
    complete = set()
    for p in go:
        apps = [e for e in p.events if e.kind == 'call' and e.a[0] == 'call' and e.a[2][0] == 'attr' and e.a[2][2] == 'append'
                and F.strip(e.a[2][1])[0] == 'sub' and F.strip(e.a[2][1])[2] == ('const', 'chunks') and len(e.a[3]) == 1]
        assert len(apps) == 1, 'one reference per covered file'
        items = dict_items(F.strip(apps[0].a[3][0]))
        assert items is not None and set(items) == {'range', 'index', 'counter'}
        assert items['index'] == ('attr', C, VOCAB['c_index']) and items['counter'] == ('attr', C, VOCAB['c_counter'])
        rng = items['range']
        assert rng[0] in ('list', 'tuple') and len(rng[-1]) == 2
        ps, pe = rng[-1]
        assert part in (None, (ps, pe))
        part = (ps, pe)
        # completion: digest / metadata copied exactly when the chunk reaches the file's end and the file was fully read
        sts = [e for e in p.events if e.kind == 'store' and F.strip(e.a)[0] == 'sub' and F.strip(e.a)[2] in (('const', 'digest'), ('const', 'metadata'))]
        if sts:
            vals = {F.strip(e.a)[2][1]: F.strip(e.b) for e in sts}
            assert vals == {'digest': ('attr', fsym, VOCAB['f_digest']), 'metadata': ('attr', fsym, VOCAB['f_meta'])}
            lits = [(e.a, e.b) for e in p.events if e.kind == 'cond'][1:]
            cmps = []
            seen_digest = False
            for l, pol in lits:
                c, pp = F.canon_lit(l, pol)
                if c[0] == 'cmp' and c[1] == 'is' and ('attr', fsym, VOCAB['f_digest']) in (c[2], c[3]) and ('const', None) in (c[2], c[3]) and not pp:
                    seen_digest = True
                elif c[0] == 'cmp' and c[1] == 'in':
                    continue
                else:
                    cmps.append(l if pol else neg_cmp(l))
            assert seen_digest and len(cmps) == 1, 'completion = (chunk end ≥ file end) and digest known'
            complete.add(F.strip(cmps[0]))
    assert part is not None and len(complete) == 1
    ps, pe = part
    # max(a - b, 0) is truncated subtraction on Nat
    assert ps[0] == 'call' and ps[2] == ('name', 'max') and len(ps[3]) == 2 and ('const', 0) in ps[3], 'part start = max(·, 0)'
    diff = ps[3][0] if ps[3][1] == ('const', 0) else ps[3][1]
    got['partStart'] = translate(sym_src(diff, leaf), names, 'nat', nat_sub=True)
    assert pe[0] == 'bin' and pe[1] == '-', 'part end = min(file end, chunk end) - chunk start'
    got['partEndAbs'] = translate(sym_src(pe[2], leaf), names, 'nat')
    got['partEndBase'] = translate(sym_src(pe[3], leaf), names, 'nat')
    got['fileComplete'] = translate(sym_src(next(iter(complete)), leaf), names, 'bool')
    return got


def _rewrite_paths(L, old, new):
    """replace the stripped sub-sym `old` by `new` in the events of the iteration paths of loop L (in place)"""
    def rw(x):
        if not isinstance(x, tuple) or not x or isinstance(x, F.LoopInfo):
            return x
        if isinstance(x[0], str) and F.strip(x) == old:
            return new
        return tuple(rw(a) if isinstance(a, tuple) else a for a in x)
    for p in L.paths:
        for e in p.events:
            if e.kind in ('cond', 'call', 'store', 'bind', 'aug', 'eval'):
                if isinstance(e.a, tuple) and F.contains(e.a, lambda t: F.strip(t) == old):
                    e.a = rw(e.a)
                if isinstance(e.b, tuple) and F.contains(e.b, lambda t: F.strip(t) == old):
                    e.b = rw(e.b)
    return None


# ---- smaller facts of snapshot / restore
def _conc(t):
    return t == ('ctor', 'concurrent') or (t[0] == 'attr' and t[1] == ('self',) and 'concurrent' in t[2])


def _conc_factor(x):
    """x == concurrent * N (either order): N"""
    x = F.strip(x)
    if x[0] == 'bin' and x[1] == '*':
        a, b = x[2], x[3]
        if _conc(b):
            a, b = b, a
        if _conc(a) and b[0] == 'const' and type(b[1]) is int:
            return b[1]
    return None


def queue_factor(paths):
    """N of `queue.Queue(maxsize=concurrent * N)` (the chunk queue of snapshot), same on every path"""
    vals = set()
    for p in paths:
        found = None
        for e in p.events:
            cp = call_parts(e) if e.kind == 'call' else None
            if cp is not None and func_name(cp[0]) in ('Queue', 'LifoQueue', 'SimpleQueue') and ('maxsize' in cp[2] or cp[1]):
                found = _conc_factor(cp[2]['maxsize'] if 'maxsize' in cp[2] else cp[1][0])
        vals.add(found)
    return vals.pop() if len(vals) == 1 else None


def loader_factor(paths):
    """N of the executor the chunk loaders of restore run in: ThreadPoolExecutor(max_workers=concurrent * N)"""
    vals = set()
    for p in paths:
        found = None
        for e in p.events:
            if e.kind != 'call':
                continue
            for t in F.subterms(e.a):
                if t[0] == 'call' and t[2][0] == 'attr' and t[2][2] == 'run_in_executor' and len(t[3]) >= 2 and F.funcs_in(t[3][1]):
                    ex = t[3][0]
                    if ex[0] == 'call' and func_name(F.strip(ex[2])) == 'ThreadPoolExecutor':
                        kw = dict(ex[4])
                        arg = kw.get('max_workers', ex[3][0] if ex[3] else None)
                        found = _conc_factor(arg) if arg is not None else None
        vals.add(found)
    return vals.pop() if len(vals) == 1 else None


def write_truncate(flow):
    """the length `<file>.truncate(·)` is called with where one part of a file is written at an offset (seek(offset), write(data)
    on the same file object), as a Lean term over (fileEnd, off, dlen) — in a method of its own or inlined where it is used"""
    cands = []
    units = []
    for name, node in flow.mod.classes.get(flow.cls, {}).items():
        src_names = {n.attr for n in ast.walk(node) if isinstance(n, ast.Attribute)}
        if not {'truncate', 'seek', 'write'} <= src_names:
            continue
        top = returns(flow.top(name))
        units.append(top)
        for p in representatives(top):
            units += [paths for _n, paths in flow.units_below(p, every=True)]
    for paths in units:
        for q in paths:
            for e, chain, i, events in walk(q.events):
                cp = call_parts(e) if e.kind == 'call' else None
                if cp is None or cp[0][0] != 'attr' or cp[0][2] != 'truncate' or len(cp[1]) != 1 or e.c == 'inlined':
                    continue
                fobj = e.a[2][1]
                writes = [x for x in events if x.kind == 'call' and x.a[0] == 'call' and x.a[2][0] == 'attr' and x.a[2][2] == 'write'
                          and F.same(x.a[2][1], fobj) and len(x.a[3]) == 1 and x.c != 'inlined']
                seeks = [x for x in events if x.kind == 'call' and x.a[0] == 'call' and x.a[2][0] == 'attr' and x.a[2][2] == 'seek'
                         and F.same(x.a[2][1], fobj) and x.c != 'inlined' and (len(x.a[3]) == 1 or (
                             len(x.a[3]) == 2 and F.strip(x.a[3][1]) in (('const', 0), ('attr', ('name', 'os'), 'SEEK_SET'), ('attr', ('name', 'io'), 'SEEK_SET'))))]
                if len(writes) != 1 or len(seeks) != 1:
                    continue
                data, off = F.strip(writes[0].a[3][0]), F.strip(seeks[0].a[3][0])

                def leaf(x, fobj=fobj, data=data, off=off):
                    if x == off:
                        return 'offset'
                    if x == ('call', 0, ('name', 'len'), (data,), ()):
                        return 'dlen'
                    if x[0] == 'call' and x[2][0] == 'attr' and x[2][2] == 'seek' and x[2][1] == F.strip(fobj) and len(x[3]) == 2 \
                            and x[3][0] == ('const', 0) and x[3][1] in (('attr', ('name', 'io'), 'SEEK_END'), ('attr', ('name', 'os'), 'SEEK_END'), ('const', 2)):
                        return 'file_end'
                    return None
                names = {'file_end': ('fileEnd', 'nat'), 'offset': ('off', 'nat'), 'dlen': ('dlen', 'nat')}
                arg = F.strip(cp[1][0])
                # max(a, b) written as a branch: this path knows which of the two is the larger one
                for c, pol in F.known([(y.a, y.b) for y in events[:i] if y.kind == 'cond']):
                    if c[0] == 'cmp' and c[1] == '<' and arg in (c[2], c[3]):
                        lo, hi = (c[2], c[3]) if pol else (c[3], c[2])        # lo < hi, or lo <= hi
                        if arg == hi:
                            both = sorted([lo, hi], key=lambda t: 0 if leaf(t) == 'file_end' else 1)
                            arg = ('call', 0, ('name', 'max'), tuple(both), ())
                cands.append(translate(sym_src(arg, leaf), names, 'nat'))
    if not cands or len(set(cands)) != 1:
        raise Untranslatable(f'write-part code not recognised ({len(set(cands))} candidates)')
    return cands[0]


def piece_size(flow, path):
    """the number of bytes the file-streaming generator of snapshot asks for in one read"""
    vals = set()
    for node, paths in flow.units_below(path, every=True):
        if not F.is_generator(node):
            continue
        defaults = {}
        a = node.args
        for prm, d in zip((a.posonlyargs + a.args)[len(a.posonlyargs + a.args) - len(a.defaults):], a.defaults):
            defaults[prm.arg] = d
        for q in paths:
            for e, chain, i, events in walk(q.events):
                cp = call_parts(e) if e.kind == 'call' else None
                if cp is None or cp[0][0] != 'attr' or cp[0][2] not in ('read', 'read1', 'readinto') or len(cp[1]) != 1:
                    continue
                n = F.strip(cp[1][0])
                if n[0] == 'const' and type(n[1]) is int:
                    vals.add(n[1])
                elif n[0] == 'param' and n[1] in defaults:
                    # the default applies when no caller passes the parameter
                    calls = [c for c in ast.walk(flow.method('snapshot')) if isinstance(c, ast.Call) and isinstance(c.func, ast.Name)
                             and c.func.id == node.name]
                    if calls and all(not c.args and not c.keywords for c in calls):
                        try:
                            consts = {k: v[1] for k, v in flow.mod.env.items() if v[0] == 'const'}
                            d = defaults[n[1]]
                            if isinstance(d, ast.Attribute) and isinstance(d.value, ast.Name) and d.value.id in ('self', 'cls', flow.cls):
                                cc = flow.mod.class_consts.get(flow.cls, {}).get(d.attr)
                                vals.add(cc[1] if cc is not None else None)
                            else:
                                vals.add(const_eval(d, consts))
                        except Exception:  # noqa: BLE001
                            vals.add(None)
                    else:
                        vals.add(None)
                elif n[0] == 'param':
                    pass          # a helper generator that is handed the size: seen with its value where it is delegated to
                else:
                    vals.add(None)
    if len(vals) == 1 and type(next(iter(vals))) is int:
        return next(iter(vals))
    return None


def _slice_of(x, base):
    """x == base[lo:hi] → (lo, hi) with None for an open end"""
    if x[0] == 'sub' and x[1] == base and x[2][0] == 'slice' and x[2][3] == ('const', None):
        lo, hi = x[2][1], x[2][2]
        if all(t[0] == 'const' and (t[1] is None or type(t[1]) is int) for t in (lo, hi)):
            return lo[1], hi[1]
    return None


def location_split(flow, meth, prefix, nparts):
    """cut points of get_*_location: posixpath.join(PREFIX, tag[:a], [tag[a:b],] f'{tag[b:]}-{name}')"""
    vals = set()
    for q in flow.top(meth):
        if q.status != 'return':
            continue
        v = F.strip(q.value)
        if not (v[0] == 'call' and func_name(v[2]) == 'join' and len(v[3]) == nparts + 2 and not v[4]):
            vals.add(None)
            continue
        args = v[3]
        if args[0] != ('const', prefix):
            vals.add(None)
            continue
        tag, name = ('param', 'tag'), ('param', 'name')
        cuts = [_slice_of(a, tag) for a in args[1:-1]]
        last = args[-1]
        ok = last[0] == 'fstr' and len(last[1]) == 3 and last[1][1] == ('const', '-') and last[1][2] == name
        tail = _slice_of(last[1][0], tag) if ok else None
        if None in cuts or tail is None:
            vals.add(None)
            continue
        pts = []
        pos = None
        good = True
        for lo, hi in cuts + [tail]:
            if (lo or 0) != (pos or 0):
                good = False
            pos = hi
            if hi is not None:
                pts.append(hi)
        vals.add(tuple(pts) if good and pos is None and len(pts) == nparts else None)
    return next(iter(vals)) if len(vals) == 1 else None


def key_body(flow, k):
    """the value a sort key computes from its argument ('bound', 0, 0): body of a lambda, or of a method / function given by name"""
    if k[0] == 'lambda' and k[1] == 1:
        return F.strip(k[2])
    if k[0] in ('method', 'func') and k[1] in F.FUNCS:
        node, cls, mod = F.FUNCS[k[1]]
        params = [a.arg for a in node.args.posonlyargs + node.args.args]
        decos = [d.id for d in node.decorator_list if isinstance(d, ast.Name)]
        if cls is not None and 'staticmethod' not in decos:
            params = params[1:]
        if len(params) != 1:
            return None
        paths = mod.run(node, cls, args={params[0]: ('bound', 0, 0)})
        vals = {F.strip(p.value) for p in paths if p.status == 'return'}
        return vals.pop() if len(vals) == 1 else None
    if k[0] == 'call' and func_name(F.strip(k[2])) == 'itemgetter' and len(k[3]) == 1:
        return ('sub', ('bound', 0, 0), F.strip(k[3][0]))
    if k[0] == 'call' and func_name(F.strip(k[2])) == 'attrgetter' and len(k[3]) == 1 and F.is_const(k[3][0]):
        return ('attr', ('bound', 0, 0), k[3][0][1])
    return None


def _dedups(r, before):
    """the list r cannot contain an element twice: list(dict.fromkeys(…)) / list(set(…)) / sorted(set(…)), or built by a loop
    that appends an element only when it is not yet in a set of the elements seen (or in the list itself)"""
    sr = F.strip(r)
    if sr[0] == 'call' and sr[2] in (('name', 'list'), ('name', 'sorted')) and len(sr[3]) == 1 and (
            (sr[3][0][0] == 'call' and sr[3][0][2] == ('attr', ('name', 'dict'), 'fromkeys'))
            or (sr[3][0][0] == 'call' and sr[3][0][2] in (('name', 'set'), ('name', 'frozenset')))):
        return True
    uid = F.sym_uid(r)
    if r[0] != 'list' or uid is None or r[2]:
        return False
    seen = 0
    for e, chain, i, events in walk(before):
        if not (e.kind == 'call' and e.a[0] == 'call' and e.a[2][0] == 'attr' and e.a[2][2] in ('append', 'extend', 'insert')
                and F.sym_uid(e.a[2][1]) == uid):
            continue
        if e.a[2][2] != 'append' or len(e.a[3]) != 1 or not chain:
            return False
        x = F.strip(e.a[3][0])
        guarded = False
        for c, pol in F.known([(y.a, y.b) for y in events[:i] if y.kind == 'cond']):
            if c[0] == 'cmp' and c[1] == 'in' and c[2] == x and not pol:
                holder = c[3]
                if holder == F.strip(r):
                    guarded = True
                elif any(y.kind == 'call' and y.a[0] == 'call' and y.a[2][0] == 'attr' and y.a[2][2] == 'add'
                         and F.strip(y.a[2][1]) == holder and len(y.a[3]) == 1 and F.strip(y.a[3][0]) == x for y in events):
                    guarded = True
        if not guarded:
            return False
        seen += 1
    return seen > 0


def files_list_facts(flow, paths):
    """(dedups, sorted by (size, path)) about the file list of snapshot: the list that is sorted in place before streaming"""
    dedup = sortkey = True
    seen = 0
    b = ('bound', 0, 0)
    want = ('tuple', (('attr', ('call', 0, ('attr', b, 'stat'), (), ()), 'st_size'), ('call', 0, ('name', 'str'), (b,), ())))
    for p in paths:
        sorts = [(i, e) for i, e in enumerate(p.events) if e.kind == 'call' and e.a[0] == 'call' and e.a[2][0] == 'attr' and e.a[2][2] == 'sort'
                 and not e.a[3] and 'key' in dict(e.a[4]) and key_body(flow, dict(e.a[4])['key']) == want]
        if len(sorts) != 1:
            # not sorted that way: look for the list anyway (the first in-place sort of a list of paths)
            sortkey = False
            sorts = [(i, e) for i, e in enumerate(p.events) if e.kind == 'call' and e.a[0] == 'call' and e.a[2][0] == 'attr' and e.a[2][2] == 'sort'][:1]
            if not sorts:
                return False, False
        seen += 1
        i, e = sorts[0]
        kw = dict(e.a[4])
        if 'reverse' in kw and not F.is_const(kw['reverse'], False):
            sortkey = False
        dedup = dedup and _dedups(e.a[2][1], p.events[:i])
    return (dedup and seen > 0), (sortkey and seen > 0)


def streamed_list_dedups(flow, reps):
    """the list of files that the streaming generator of snapshot walks cannot contain a file twice"""
    seen = 0
    for p in reps:
        found = False
        for node, paths in flow.units_below(p, every=True):
            if not F.is_generator(node):
                continue
            for q in paths:
                loops = [e.a for e in q.events if e.kind == 'loop' and e.a.kind == 'for']
                if not loops or not any(x.kind == 'call' and x.a[0] == 'call' and x.a[2][0] == 'attr' and x.a[2][2] in ('read', 'read1', 'readinto')
                                        for x, _c, _i, _l in walk(q.events)):
                    continue
                if not _dedups(unwrap_iter(loops[0].iter), p.events):
                    return False
                found = True
        if not found:
            return False
        seen += 1
    return seen > 0


def newest_first(paths):
    """restore walks the snapshots newest first: <list>.sort(key=λx. x['data']['utc_timestamp'], reverse=True)"""
    seen = 0
    for p in paths:
        ok = False
        for e in p.events:
            if e.kind == 'call' and e.a[0] == 'call' and e.a[2][0] == 'attr' and e.a[2][2] == 'sort' and not e.a[3]:
                kw = dict(e.a[4])
                k = F.strip(kw.get('key', ('const', None)))
                want = ('sub', ('sub', ('bound', 0, 0), ('const', 'data')), ('const', 'utc_timestamp'))
                if k[0] == 'lambda' and k[1] == 1 and k[2] == want and F.is_const(kw.get('reverse', ('const', False)), True):
                    ok = True
        if not ok:
            return False
        seen += 1
    return seen > 0


# ------------------------------------------------------------------ repository.py: layout / restore expressions
def repository_section():
    src = (REPO / 'replicat' / 'repository.py').read_text()
    tree = ast.parse(src)
    emit('/-! ## repository.py: stream layout, chunk→file attribution, restore plan -/')
    repo_cls = find_func(tree, 'Repository')
    consts = class_consts(repo_cls, module_consts(tree))
    for nm, lean in [('CHUNK_PREFIX', 'chunkPrefix'), ('SNAPSHOT_PREFIX', 'snapshotPrefix')]:
        if isinstance(consts.get(nm), str):
            emit(f'def {lean} : String := {json.dumps(consts[nm])}')
        else:
            emit(f'opaque {lean} : String')
            notes[nm] = 'not a str literal'

    # Everything below is read from the symbolic paths of the methods (pyflow): locals are resolved through their
    # assignments, helpers are followed, conditions are compared as literals on a path — not as statement text.
    flow = Flow(REPO / 'replicat' / 'repository.py')

    def attempt(label, fn, default=None):
        try:
            return fn()
        except (F.Unsupported, Untranslatable, AssertionError, KeyError, IndexError, TypeError, AttributeError, RecursionError,
                ValueError, StopIteration) as e:
            notes[label] = f'not recognised: {e!r}'[:300]
            return default

    snap_paths = attempt('snapshot', lambda: returns(flow.top('snapshot')), []) or []
    rest_paths = attempt('restore', lambda: returns(flow.top('restore')), []) or []
    snap_reps = representatives(snap_paths)
    rest_reps = representatives(rest_paths)
    VOCAB.clear()
    VOCAB.update(attempt('vocabulary', lambda: infer_vocabulary(flow, snap_reps[0]) if snap_reps else dict(VOCAB_DEFAULT), dict(VOCAB_DEFAULT)) or VOCAB_DEFAULT)
    if VOCAB != VOCAB_DEFAULT:
        notes['vocabulary'] = 'record fields by role: ' + ', '.join(f'{k}={v}' for k, v in sorted(VOCAB.items()) if VOCAB_DEFAULT[k] != v)

    # --- _chunk_done
    fp('repository.snapshot._chunk_done', find_func(tree, 'Repository', 'snapshot', '_chunk_done'))

    def chunk_done():
        gots = [chunk_done_shape(flow, p) for p in snap_reps]
        assert gots and all(g == gots[0] for g in gots), 'differs between paths'
        return gots[0]
    got = attempt('chunk_done', chunk_done)
    if got is not None:
        emit('def chunkDoneRecognised : Bool := true')
        emit(f'def bisectKey (cs ce : Nat) : Nat := {got["bisectKey"]}')
        emit(f'def stopScan (fs fe cs ce : Nat) : Bool := {got["stopScan"]}')
        emit(f'def partStart (fs fe cs ce : Nat) : Nat := {got["partStart"]}')
        emit(f'def partEnd (fs fe cs ce : Nat) : Nat := {got["partEndAbs"]} - {got["partEndBase"]}')
        emit(f'def fileComplete (fs fe cs ce : Nat) : Bool := {got["fileComplete"]}')
    else:
        emit('def chunkDoneRecognised : Bool := false')
        emit('opaque bisectKey : Nat → Nat → Nat')
        for nm in ('stopScan', 'fileComplete'):
            emit(f'opaque {nm} : Nat → Nat → Nat → Nat → Bool')
        for nm in ('partStart', 'partEnd'):
            emit(f'opaque {nm} : Nat → Nat → Nat → Nat → Nat')

    # --- _stream_files: padding expression and read-piece size
    fp('repository.snapshot._stream_files', find_func(tree, 'Repository', 'snapshot', '_stream_files'))

    def piece():
        vals = {piece_size(flow, p) for p in snap_reps}
        assert len(vals) == 1 and None not in vals, f'piece sizes {vals}'
        return vals.pop()
    pc = attempt('stream_files.piece', piece)
    if pc is not None:
        emit(f'def pieceSize : Nat := {pc}')
    pad_ok = attempt('stream_files', lambda: bool(snap_reps) and all(padding_shape(flow, p) for p in snap_reps), False)
    if pad_ok:
        emit('def paddingRecognised : Bool := true')
        emit('/-- `-(len) % alignment` with Python semantics (result in [0, alignment)). -/')
        emit('def padding (len alignment : Nat) : Nat := (alignment - len % alignment) % alignment')
    else:
        notes.setdefault('stream_files', 'padding between files not recognised')
        emit('def paddingRecognised : Bool := false')
        if pc is None:
            emit('opaque pieceSize : Nat')
        emit('opaque padding : Nat → Nat → Nat')
    if pad_ok and pc is None:
        emit('opaque pieceSize : Nat')

    # --- sort key of files
    fp('repository.snapshot', find_func(tree, 'Repository', 'snapshot'))
    dedup, sortkey = attempt('files_list', lambda: files_list_facts(flow, snap_paths), (False, False))
    emit(f'def filesSortedBySizeThenPath : Bool := {"true" if sortkey else "false"}')
    # queue size / rate chunk
    qfactor = attempt('queueFactor', lambda: queue_factor(snap_paths))
    emit(f'def queueFactor : Nat := {qfactor}' if qfactor is not None else 'opaque queueFactor : Nat')
    # every command must use the same divisor

    def divisor():
        divs = rate_divisors(flow)
        used = {k: v for k, v in divs.items() if v}
        assert {'snapshot', 'restore', 'upload_objects', 'download_objects'} <= set(used), f'commands with a piece size: {sorted(used)}'
        ns = set()
        for k, v in used.items():
            assert v <= {x for x in v if type(x) is int} | {'default'} and any(type(x) is int for x in v), f'{k}: {v}'
            ns |= {x for x in v if type(x) is int}
        assert len(ns) == 1, f'divisors differ: {ns}'
        return ns.pop()
    rate_div = attempt('rateDivisor', divisor)
    if rate_div is not None:
        emit(f'def rateDivisor : Nat := {rate_div}')
    else:
        emit('opaque rateDivisor : Nat')

    # --- _write_file_part: truncate(max(file_end, offset + len(data)))
    fp('repository._write_file_part', find_func(tree, 'Repository', '_write_file_part'))
    wt = attempt('write_file_part', lambda: write_truncate(flow))
    if wt is not None:
        emit(f'def writeTruncate (fileEnd off dlen : Nat) : Nat := {wt}')
    else:
        emit('opaque writeTruncate : Nat → Nat → Nat → Nat')

    # --- restore: ordering key, location slicing
    fp('repository.restore', find_func(tree, 'Repository', 'restore'))
    plans = attempt('restore_plan', lambda: [restore_plan(p) for p in rest_paths], []) or []
    ordered = bool(plans) and all(pl is not None and pl['ordered'] for pl in plans)
    emit(f'def restoreOrdersByCounter : Bool := {"true" if ordered else "false"}')
    emit(f'def restoreNewestFirst : Bool := {"true" if attempt("restoreNewestFirst", lambda: newest_first(rest_paths), False) else "false"}')
    lf = attempt('loaderFactor', lambda: loader_factor(rest_paths))
    emit(f'def loaderFactor : Nat := {lf}' if lf is not None else 'opaque loaderFactor : Nat')

    # --- location builders
    for nm in ('get_chunk_location', 'get_snapshot_location', 'parse_chunk_location', 'parse_snapshot_location'):
        fp(f'repository.{nm}', find_func(tree, 'Repository', nm))
    cs = attempt('get_chunk_location', lambda: location_split(flow, 'get_chunk_location', consts.get('CHUNK_PREFIX'), 2))
    if cs is not None:
        emit(f'def chunkLocSplit : Nat × Nat := ({cs[0]}, {cs[1]})')
    else:
        notes.setdefault('get_chunk_location', 'not posixpath.join(prefix, tag[:a], tag[a:b], f"{tag[b:]}-{name}")')
        emit('opaque chunkLocSplit : Nat × Nat')
    ss = attempt('get_snapshot_location', lambda: location_split(flow, 'get_snapshot_location', consts.get('SNAPSHOT_PREFIX'), 1))
    if ss is not None:
        emit(f'def snapLocSplit : Nat := {ss[0]}')
    else:
        notes.setdefault('get_snapshot_location', 'not posixpath.join(prefix, tag[:a], f"{tag[a:]}-{name}")')
        emit('opaque snapLocSplit : Nat')
    # --- shapes of the defect fixes (each a Bool the theorems discharge by `decide`)
    fp('repository._flatten_resolve_paths', find_func(tree, 'Repository', '_flatten_resolve_paths'))
    if not dedup:
        # however the list is put in order: what matters is the list that is streamed
        dedup = attempt('flattenDedups', lambda: streamed_list_dedups(flow, snap_reps), False)
    emit(f'def flattenDedups : Bool := {"true" if dedup else "false"}')
    fp('repository.restore._download_chunk', find_func(tree, 'Repository', 'restore', '_download_chunk'))
    by_id = {id(p): pl for p, pl in zip(rest_paths, plans)}
    sizes_ok = attempt('restoreSetsFinalLength', lambda: bool(rest_reps) and all(
        restore_final_length(flow, p, by_id.get(id(p))) for p in rest_reps), False)
    sizes_ok = sizes_ok and bool(plans) and all(pl is not None and pl.get('sizes') not in (None, 'unset') for pl in plans)
    emit(f'def restoreSetsFinalLength : Bool := {"true" if sizes_ok else "false"}')
    under_lock = attempt('finaliseDecidedUnderLock', lambda: bool(rest_reps) and all(finalise_under_lock(flow, p) for p in rest_reps), False)
    emit(f'def finaliseDecidedUnderLock : Bool := {"true" if under_lock else "false"}')
    rec_chunkless = attempt('recordsChunklessFiles', lambda: bool(snap_paths) and all(records_chunkless(p) for p in snap_paths), False)
    emit(f'def recordsChunklessFiles : Bool := {"true" if rec_chunkless else "false"}')
    res_chunkless = attempt('restoresChunklessFiles', lambda: bool(rest_paths) and all(
        restore_chunkless(p, pl) for p, pl in zip(rest_paths, plans)), False)
    emit(f'def restoresChunklessFiles : Bool := {"true" if res_chunkless else "false"}')
    # --- cache verification (C18)
    cache_ok = attempt('cacheVerified', lambda: cache_verified(flow), False)
    emit(f'def cacheVerified : Bool := {"true" if cache_ok else "false"}')
    for nm in ('_download_snapshot_threadsafe', '_load_snapshots', 'delete_snapshots', 'clean', '_decrypt_snapshot_body',
               '_encrypt_snapshot_body', '_chunk_digest_to_location_parts', '_snapshot_digest_to_location_parts', 'init',
               'unlock', 'add_key', '_make_key', '_instantiate_key', '_make_config', 'list_snapshots', 'list_files',
               '_flatten_resolve_paths', 'restore_metadata', 'read_metadata', '_acquire_slot', '_acquire_slot_threadsafe'):
        fp(f'repository.{nm}', find_func(tree, 'Repository', nm))
    emit()


# ------------------------------------------------------------------ utils/__init__.py: rate limiter
def ratelimit_section():
    src = (REPO / 'replicat' / 'utils' / '__init__.py').read_text()
    tree = ast.parse(src)
    emit('/-! ## utils/__init__.py: RateLimitedIO -/')
    rl = find_func(tree, 'RateLimitedIO')
    fp('utils.RateLimitedIO', rl)
    fp('utils._RateLimitedFileWrapper', find_func(tree, '_RateLimitedFileWrapper'))
    fp('utils.requires_auth', find_func(tree, 'requires_auth'))
    fp('utils.type_hint', find_func(tree, 'type_hint'))
    fp('utils.type_reverse', find_func(tree, 'type_reverse'))
    fp('utils.guess_type', find_func(tree, 'guess_type'))
    vals = class_consts(rl, module_consts(tree))
    for nm, lean in [('PAUSE_THRESHOLD_SECONDS', 'pauseThreshold'), ('PAUSE_LIMIT', 'pauseLimit')]:
        if isinstance(vals.get(nm), (int, float)) and not isinstance(vals.get(nm), bool):
            emit(f'def {lean} : Rat := {rat(vals[nm])}')
        else:
            emit(f'opaque {lean} : Rat')
            notes[nm] = 'not a numeric literal'
    # shape of pause_reads / pause_writes
    shape_ok = True
    for which in ('read', 'write'):
        f = find_func(tree, 'RateLimitedIO', f'pause_{which}s')
        want = (
            f"with self._{which}_lock:\n"
            f"    self._{which}_sleep_amortised += seconds\n"
            f"    if self._{which}_sleep_amortised > self.PAUSE_LIMIT:\n"
            f"        self._{which}_sleep_amortised = self.PAUSE_LIMIT\n"
            f"    if self._{which}_sleep_amortised <= self.PAUSE_THRESHOLD_SECONDS:\n"
            f"        return\n"
            f"    sleep_start = time.perf_counter()\n"
            f"    time.sleep(self._{which}_sleep_amortised)\n"
            f"    self._{which}_sleep_amortised -= time.perf_counter() - sleep_start")
        got = '\n'.join(unparse(s) for s in f.body) if f is not None else ''
        if got != want:
            shape_ok = False
            notes[f'pause_{which}s'] = 'shape differs from the modelled one'
    emit(f'def pauseShapeRecognised : Bool := {"true" if shape_ok else "false"}')
    emit()


# ------------------------------------------------------------------ backends: retry policies, S3 quoting
def retry_policy(tree, cls_name):
    """the backoff.on_exception(…) policy that decorates the methods of a backend class, however it is spelled:
    a module-level name, functools.partial(backoff.on_exception, …), a partial applied further, or the call itself.
    Returns (positional args as source text, keywords as source text) when all decorated methods agree, else (None, None)."""
    assigns = {}
    for st in tree.body:
        if isinstance(st, ast.Assign) and len(st.targets) == 1 and isinstance(st.targets[0], ast.Name):
            assigns[st.targets[0].id] = st.value
    consts = module_consts(tree)

    def text(v, depth=0):
        if isinstance(v, ast.Name) and v.id in consts and not isinstance(consts[v.id], str):
            return repr(consts[v.id])
        if isinstance(v, ast.Name) and v.id in assigns and isinstance(assigns[v.id], (ast.Name, ast.Attribute)) and depth < 4:
            return text(assigns[v.id], depth + 1)          # an alias: RETRIED = OSError
        return unparse(v)

    funcs = {st.name: st for st in tree.body if isinstance(st, ast.FunctionDef)}

    def resolve(e, depth=0):
        if depth > 6:
            return None
        if isinstance(e, ast.Name):
            if e.id in assigns:
                return resolve(assigns[e.id], depth + 1)
            if e.id in funcs:
                # a decorator function that applies the policy to the method it is given
                for n in ast.walk(funcs[e.id]):
                    if isinstance(n, ast.Call):
                        r = resolve(n, depth + 1)
                        if r is not None:
                            return r
            return None
        if isinstance(e, ast.Call):
            fn = unparse(e.func)
            args, kw = [text(a) for a in e.args], {k.arg: text(k.value) for k in e.keywords if k.arg}
            if fn.split('.')[-1] == 'on_exception':
                return args, kw
            if fn.split('.')[-1] == 'partial' and e.args and unparse(e.args[0]).split('.')[-1] == 'on_exception':
                return args[1:], kw
            base = resolve(e.func, depth + 1)
            if base is not None:
                return base[0] + args, dict(base[1], **kw)
        return None
    cls = find_func(tree, cls_name)
    found = []
    for st in (cls.body if cls is not None else []):
        if isinstance(st, (ast.FunctionDef, ast.AsyncFunctionDef)):
            for d in st.decorator_list:
                r = resolve(d)
                if r is not None:
                    found.append(r)
    keyset = {(tuple(a[:2]), kw.get('max_tries'), kw.get('giveup')) for a, kw in found}
    if len(keyset) != 1:
        return None, None
    return found[0]


def backends_section():
    emit('/-! ## backends: retry policies, S3 signing inputs, B2 listing -/')
    local = (REPO / 'replicat' / 'backends' / 'local.py').read_text()
    s3c = (REPO / 'replicat' / 'backends' / 's3c.py').read_text()
    b2 = (REPO / 'replicat' / 'backends' / 'b2.py').read_text()
    for nm, src in (('local', local), ('s3c', s3c), ('b2', b2)):
        fingerprints[f'backends/{nm}.py'] = hashlib.sha256(ast.dump(ast.parse(src)).encode()).hexdigest()[:16]
    a, kw = retry_policy(ast.parse(local), 'Local')

    def tries(kw):
        try:
            v = int(kw.get('max_tries'))
            return f'some {v}'
        except Exception:
            return 'none'
    emit(f'def retryLocalMaxTries : Option Nat := {tries(kw or {})}')
    emit(f'def retryLocalCatchesOSError : Bool := {"true" if a and a[1:2] == ["OSError"] else "false"}')
    s3tree = ast.parse(s3c)
    a, kw = retry_policy(s3tree, 'S3Compatible')
    emit(f'def retryS3MaxTries : Option Nat := {tries(kw or {})}')
    # give up on 403: the predicate is a function of the module that tests for the FORBIDDEN status
    giveup = find_func(s3tree, (kw or {}).get('giveup') or '') if (kw or {}).get('giveup', '').isidentifier() else None
    gtxt = unparse(giveup) if giveup is not None else ''
    emit(f'def retryS3GiveupOn403 : Bool := {"true" if ("FORBIDDEN" in gtxt or "403" in gtxt) else "false"}')
    a, kw = retry_policy(ast.parse(b2), 'B2')
    emit(f'def retryB2MaxTries : Option Nat := {tries(kw or {})}')
    # S3 quoting: the quote / urlencode calls of the class that builds the request (wherever in the class they sit)
    tree = s3tree
    pr = find_func(tree, 'S3Compatible')
    quote_call = urlencode_call = None
    for node in ast.walk(pr):
        if isinstance(node, ast.Call) and unparse(node.func).split('.')[-1] == 'quote' and quote_call is None:
            quote_call = node
        if isinstance(node, ast.Call) and unparse(node.func).split('.')[-1] == 'urlencode':
            urlencode_call = node
    s3consts = module_consts(tree)
    qsafe = '/'
    if quote_call is not None:
        for k in quote_call.keywords:
            if k.arg == 'safe':
                qsafe = const_eval(k.value, s3consts)
        if len(quote_call.args) > 1:
            qsafe = const_eval(quote_call.args[1], s3consts)
    emit(f'def s3PathSafe : String := {json.dumps(qsafe)}')
    via = 'quote_plus'
    usafe = ''
    sorted_q = False
    if urlencode_call is not None:
        for k in urlencode_call.keywords:
            if k.arg == 'quote_via':
                via = unparse(k.value).split('.')[-1]
            if k.arg == 'safe':
                usafe = const_eval(k.value, s3consts)
        arg0 = urlencode_call.args[0]
        sorted_q = unparse(arg0).startswith('sorted(')
        if isinstance(arg0, ast.Name):
            # a local holding the sorted pairs
            for node in ast.walk(pr):
                if isinstance(node, ast.Assign) and any(isinstance(t, ast.Name) and t.id == arg0.id for t in node.targets):
                    sorted_q = unparse(node.value).startswith('sorted(')
    emit(f'def s3QueryQuoteVia : String := {json.dumps(via)}')
    emit(f'def s3QuerySafe : String := {json.dumps(usafe)}')
    emit(f'def s3QuerySorted : Bool := {"true" if sorted_q else "false"}')
    hdrs = None
    for node in ast.walk(pr):
        # the dict of headers that are signed: the display with a 'host' entry
        if isinstance(node, ast.Dict) and all(isinstance(k, ast.Constant) and isinstance(k.value, str) for k in node.keys) \
                and 'host' in [k.value for k in node.keys] and hdrs is None:
            hdrs = [k.value for k in node.keys]
    emit('def s3SignedHeaders : List String := ' + ('[' + ', '.join(json.dumps(h) for h in hdrs) + ']' if hdrs else '[]'))
    m = re.search(r"'maxFileCount': ([\d_]+)", b2)
    emit(f'def b2MaxFileCount : Nat := {int(m.group(1).replace("_", ""))}' if m else 'opaque b2MaxFileCount : Nat')
    base = (REPO / 'replicat' / 'backends' / 'base.py').read_text()
    m = re.search(r'^DEFAULT_STREAM_CHUNK_SIZE = ([\d_]+)', base, re.M)
    emit(f'def streamChunk : Nat := {int(m.group(1).replace("_", ""))}' if m else 'opaque streamChunk : Nat')
    emit()


class Ctx:
    """What a plug-in section (tools/sections/NN_name.py, function `section(ctx)`) may use."""
    REPO = REPO
    emit = staticmethod(emit)
    notes = notes
    fingerprints = fingerprints
    translate = staticmethod(translate)
    Untranslatable = Untranslatable
    find_func = staticmethod(find_func)
    fp = staticmethod(fp)
    rat = staticmethod(rat)
    unparse = staticmethod(unparse)


def plugin_sections():
    """Each property adds its own extraction in tools/sections/*.py (sorted by file name).  A plug-in that raises is
    recorded in the notes and emits `def <name>SectionOk : Bool := false`, so that dependent bridge lemmas fail."""
    import importlib.util
    d = Path(__file__).resolve().parent / 'sections'
    for f in sorted(d.glob('*.py')):
        name = re.sub(r'^\d+_', '', f.stem)
        spec = importlib.util.spec_from_file_location(f'sections_{f.stem}', f)
        mod = importlib.util.module_from_spec(spec)
        mark = len(lines)
        try:
            spec.loader.exec_module(mod)
            emit(f'/-! ## plug-in section {f.name} -/')
            mod.section(Ctx)
            emit(f'def {name}SectionOk : Bool := true')
        except Exception as e:  # noqa: BLE001
            del lines[mark:]
            notes[f'section:{f.name}'] = f'failed: {e!r}'
            emit(f'/-! ## plug-in section {f.name}: FAILED ({type(e).__name__}) -/')
            emit(f'def {name}SectionOk : Bool := false')
        emit()


def main():
    emit('/- GENERATED by /verif/tools/extract.py from /repo — do not edit; regenerated on every run. -/')
    emit('set_option linter.unusedVariables false')
    emit('namespace Replicat.Gen')
    emit()
    chunker_section()
    repository_section()
    ratelimit_section()
    backends_section()
    plugin_sections()
    emit('end Replicat.Gen')
    text = '\n'.join(lines) + '\n'
    OUT.parent.mkdir(parents=True, exist_ok=True)
    changed = (not OUT.exists()) or OUT.read_text() != text
    if changed:
        OUT.write_text(text)
    SIDE.parent.mkdir(parents=True, exist_ok=True)
    SIDE.write_text(json.dumps({'notes': notes, 'fingerprints': fingerprints, 'generated_sha': hashlib.sha256(text.encode()).hexdigest()[:16]}, indent=1))
    print(json.dumps({'changed': changed, 'notes': notes}))


if __name__ == '__main__':
    main()
