#!/usr/bin/env python3
"""Writes MANIFEST.json from the table below (kept in one place so it stays valid)."""
import json
from pathlib import Path

V = Path(__file__).resolve().parent.parent
CLAIMED = {f.stem: json.loads(f.read_text()) for f in sorted((V / 'tools' / 'claims').glob('C*.json'))}
props = [json.loads(l) for l in (V / 'properties.jsonl').read_text().splitlines() if l.strip()]
checks = []
na = []
for p in props:
    pid = p['id']
    c = CLAIMED.get(pid)
    if c and (V / 'harness' / 'props' / f'{pid.lower()}.py').exists() and (V / 'lean' / 'ReplicatProofs' / 'Properties' / f'{pid}.lean').exists():
        checks.append({
            'property_id': pid,
            'quick_cmd': f'/venv/bin/python -m harness.check {pid} --tier quick',
            'thorough_cmd': f'/venv/bin/python -m harness.check {pid} --tier thorough',
            'evidence_file': f'/verif/evidence/{pid}.json',
            'replay_cmd_template': f'/venv/bin/python -m harness.check {pid} --replay {{path}}',
            'engine': 'lean4-proof+correspondence',
            'level_claimed': {'category': 'proof', 'text': c['text'], 'design_ref': c.get('design_ref', f'DESIGN.md §6 {pid}')},
            'level_note': c['note'],
            'technique': c['technique'],
        })
    else:
        na.append({'property_id': pid, 'reason': (c or {}).get('na_reason', 'check not built yet in this round (work in progress; see DESIGN.md §10 build order) — not a claim that proof cannot apply')})
m = {
    'version': 1,
    'setup_cmd': 'python3 -m harness.build --all',
    'hooks': {
        'guard': 'REPLICAT_VERIF',
        'enable': 'no source hooks: every instrumentation point is substituted from the harness process (backends, locks, clocks, adapters table); the C++ chunker is rebuilt from /repo/src/adapters.cpp by harness.build',
        'baseline_off_cmd': 'cd /repo && /venv/bin/python -m pytest -ra -q -p no:cacheprovider --timeout=900 --continue-on-collection-errors',
        'source_commits': [],
        'add_only': True,
    },
    'engines': [{'name': 'lean4-proof+correspondence', 'path': '/verif/lean', 'serves_properties': [c['property_id'] for c in checks],
                 'kind_free_text': 'Lean 4 models + theorems (lake project, core Lean + single Mathlib modules), Generated.lean regenerated from /repo by tools/extract.py on every run, compiled model driver compared with the real implementation by harness/'}],
    'checks': checks,
    'notes': 'Known findings: /verif/known_findings.json. fix: commits in /repo are listed there as fixed entries.',
    'not_applicable': na,
}
(V / 'MANIFEST.json').write_text(json.dumps(m, indent=1))
print('claimed', [c['property_id'] for c in checks])
