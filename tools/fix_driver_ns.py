#!/usr/bin/env python3
"""Give every lean/Driver/<X>.lean (except Util, Main) its own namespace Driver.H<X> so that helper names cannot clash when the
handlers are linked into one executable; re-export the handler as Driver.handle<X>.  Idempotent."""
import re
from pathlib import Path
D = Path(__file__).resolve().parent.parent / 'lean' / 'Driver'
for f in sorted(D.glob('*.lean')):
    x = f.stem
    if x in ('Util', 'Main'):
        continue
    s = f.read_text()
    if f'namespace Driver.H{x}' in s:
        continue
    h = 'handle' + x
    if not re.search(rf'\bdef {h}\b', s):
        # Chunk.lean defines handleChunk
        m = re.search(r'\bdef (handle\w+)', s)
        h = m.group(1)
    s = re.sub(r'^namespace Driver\s*$', f'namespace Driver.H{x}', s, flags=re.M)
    s = re.sub(r'^end Driver\s*$', f'end Driver.H{x}\n\ndef Driver.{h} := Driver.H{x}.{h}', s, flags=re.M)
    f.write_text(s)
    print('fixed', f.name)
