#!/usr/bin/env python3
"""regress_harmless.py <PID>… — run THIS tree's quick check of each PID against the kept behaviour-preserving refactors `harmless/<PID>/h*.diff`
(written by independent engineers; each passes the unit tests).  Every run must exit 0; prints one line per patch; exit 1 otherwise."""
import glob, os, subprocess, sys
root = os.path.dirname(os.path.dirname(os.path.abspath(__file__)))
bad = 0
for pid in sys.argv[1:] or sorted(os.listdir(os.path.join(root, 'harmless'))):
    for p in sorted(glob.glob(os.path.join(root, 'harmless', pid, 'h*.diff'))):
        r = subprocess.run([os.path.join(root, 'tools', 'try_patch.sh'), p, pid], capture_output=True, text=True)
        lines = [l for l in r.stdout.splitlines() if l.startswith(('VIOLATION', 'INFRA', 'PATCH', 'exit='))]
        ok = r.returncode == 0
        bad |= not ok
        print(pid, os.path.basename(p), 'ok' if ok else 'ALARM: ' + ' | '.join(lines[:3]), flush=True)
sys.exit(bad)
