"""A small abstract interpreter for the Python of replicat, used by the extractor plug-ins of C17 / C19 / C20
(tools/sections/17_*.py, 19_options.py, 20_*.py).

Why: the facts those plug-ins emit are consumed by theorems.  A recogniser that matches statement shapes or variable
names alarms on every harmless refactor (helper extracted, locals renamed, branches swapped, early return, values hoisted
into constants …).  The recognisers therefore ask SEMANTIC questions of a symbolic execution instead:

* `Repo`      — the modules of the checkout, their symbols; imports are resolved to fully-qualified names, so
                `cli.make_main_parser`, `from .utils.cli import make_main_parser` and an alias are the same thing;
* `Exec`      — executes one function symbolically.  Values are hash-consed terms (`T`); names are resolved through
                assignments, module / class constants and closures; calls of functions defined in the repo are FOLLOWED
                (self-methods, nested functions, module functions; policy decides how far) with parameters bound, so a value
                or a call is found wherever it was moved to.  Every call / raise / attribute store / item store becomes an
                `Event` in evaluation order carrying its PATH CONDITION (the conjunction of branch conditions under which it
                happens — early returns / `continue` / `break` add the negated condition to everything after them) and its
                context (loop, try, handler, with, inlined call, callback);
* `truth` / `resolve` — three-valued evaluation of conditions and of `phi` values under a (partial) valuation of the atomic
                conditions; `x is not None` / `x is None`, `==` / `!=`, `<` / `>=`, `not`, De Morgan, conditional
                expressions, swapped branches all reduce to the same atoms, so recognisers compare BEHAVIOUR per case
                (`cases(atoms)`) rather than syntax.

The interpreter never guesses: what it does not understand becomes an `unk` term (or `Budget` is raised), and a recogniser
that meets it reports "not recognised" (opaque / false fact).
"""
import ast
import itertools
from pathlib import Path


class Budget(Exception):
    """analysis grew too large / too deep — callers treat it as 'not recognised'"""


# ------------------------------------------------------------------ terms
class T:
    """hash-consed term: `op` + tuple of arguments (terms or Python primitives).  Equality is identity."""
    __slots__ = ('op', 'a', '_h', '__weakref__')
    _table = {}

    def __init__(self, op, a, h):
        self.op, self.a, self._h = op, a, h

    def __hash__(self):
        return self._h

    def __repr__(self):
        return show(self)


def _key(x):
    if isinstance(x, T):
        return ('T', id(x))
    if isinstance(x, tuple):
        return ('t',) + tuple(_key(y) for y in x)
    if isinstance(x, (FuncRef, ClassRef)):
        return ('r', id(x))
    return ('v', type(x).__name__, x)


def mk(op, *a):
    k = (op,) + tuple(_key(x) for x in a)
    t = T._table.get(k)
    if t is None:
        t = T._table[k] = T(op, a, hash(k))
    return t


def K(v):
    return mk('k', v)


NONE, TRUE, FALSE = None, None, None   # set below (need mk)


def is_k(t, *vals):
    if not (isinstance(t, T) and t.op == 'k'):
        return False
    if not vals:
        return True
    return any(type(t.a[0]) is type(v) and t.a[0] == v for v in vals)


def kval(t, default=None):
    return t.a[0] if isinstance(t, T) and t.op == 'k' else default


def show(t, depth=0):
    """readable rendering (notes / debugging only — never compared)"""
    if not isinstance(t, T):
        if isinstance(t, tuple):
            return '(' + ', '.join(show(x, depth + 1) for x in t) + ')'
        if isinstance(t, (FuncRef, ClassRef)):
            return t.fq
        return repr(t)
    if depth > 12:
        return '…'
    o, a = t.op, t.a
    if o == 'k':
        return repr(a[0])
    if o in ('g', 'p'):
        return str(a[0])
    if o == 'self':
        return 'self'
    if o == 'gv':
        return str(a[0])
    if o == 'fn':
        return f'<fn {a[0].fq}>'
    if o == 'cls':
        return f'<class {a[0].fq}>'
    if o == 'bound':
        return f'{show(a[1], depth + 1)}.{a[0].name}'
    if o == 'attr':
        return f'{show(a[0], depth + 1)}.{a[1]}'
    if o == 'call':
        args = [show(x, depth + 1) for x in a[1]] + [(f'{k}=' if k else '**') + show(v, depth + 1) for k, v in a[2]]
        return f'{show(a[0], depth + 1)}({", ".join(args)})'
    if o == 'phi':
        return f'({show(a[1], depth + 1)} if {show(a[0], depth + 1)} else {show(a[2], depth + 1)})'
    if o == 'not':
        return f'not {show(a[0], depth + 1)}'
    if o in ('and', 'or'):
        return '(' + f' {o} '.join(show(x, depth + 1) for x in a[0]) + ')'
    if o == 'cmp':
        return f'({show(a[1], depth + 1)} {a[0]} {show(a[2], depth + 1)})'
    if o == 'bin':
        return f'({show(a[1], depth + 1)} {a[0]} {show(a[2], depth + 1)})'
    if o == 'item':
        return f'{show(a[0], depth + 1)}[{show(a[1], depth + 1)}]'
    return f'{o}(' + ', '.join(show(x, depth + 1) for x in a) + ')'


def subterms(t, seen=None):
    """every sub-term of t (each once)"""
    seen = set() if seen is None else seen
    stack = [t]
    while stack:
        x = stack.pop()
        if isinstance(x, tuple):
            stack.extend(x)
            continue
        if not isinstance(x, T) or id(x) in seen:
            continue
        seen.add(id(x))
        yield x
        stack.extend(x.a)


def contains(t, sub):
    return any(x is sub for x in subterms(t))


def rewrite(t, f, memo=None):
    """bottom-up rewriting: f(term with rewritten children) → term"""
    memo = {} if memo is None else memo

    def go(x):
        if isinstance(x, tuple):
            return tuple(go(y) for y in x)
        if not isinstance(x, T):
            return x
        r = memo.get(id(x))
        if r is None:
            r = memo[id(x)] = f(mk(x.op, *[go(y) for y in x.a]))
        return r
    return go(t)


# ------------------------------------------------------------------ the checkout
class FuncRef:
    def __init__(self, node, module, cls=None, closure=None, fq=None):
        self.node, self.module, self.cls, self.closure = node, module, cls, closure
        self.name = getattr(node, 'name', '<lambda>')
        self.fq = fq or (f'{module.fq}.{cls.name}.{self.name}' if cls is not None else f'{module.fq}.{self.name}')
        self.nested = closure is not None

    def kind(self):
        for d in getattr(self.node, 'decorator_list', []):
            s = ast.unparse(d)
            if s in ('staticmethod', 'classmethod'):
                return s
        return 'method' if self.cls is not None else 'function'


class ClassRef:
    def __init__(self, node, module):
        self.node, self.module, self.name, self.fq = node, module, node.name, f'{module.fq}.{node.name}'
        self._consts = {}
        self._stored = None

    def bases(self):
        out = []
        for b in self.node.bases:
            t = self.module.resolve_expr(b)
            if isinstance(t, T) and t.op == 'cls':
                out.append(t.a[0])
        return out

    def mro(self):
        seen, order = set(), []

        def go(c):
            if id(c) in seen:
                return
            seen.add(id(c))
            order.append(c)
            for b in c.bases():
                go(b)
        go(self)
        return order

    def find_method(self, name):
        for c in self.mro():
            for st in c.node.body:
                if isinstance(st, (ast.FunctionDef, ast.AsyncFunctionDef)) and st.name == name:
                    return FuncRef.of(st, c.module, c)
        return None

    def stores_attr(self, name):
        """some method of the class (or a base) assigns `<obj>.name`"""
        if self._stored is None:
            self._stored = set()
            for c in self.mro():
                for n in ast.walk(c.node):
                    if isinstance(n, ast.Attribute) and isinstance(n.ctx, (ast.Store, ast.Del)):
                        self._stored.add(n.attr)
                    if isinstance(n, ast.Call) and isinstance(n.func, ast.Name) and n.func.id == 'setattr':
                        self._stored.add('*')
        return name in self._stored or '*' in self._stored

    def find_const(self, name, instance=False):
        """class-level `NAME = <expr>` (through the bases) → term or None.  `instance`: read through an instance — only
        plain class constants count (no annotated fields, nothing the class assigns on its instances)"""
        if instance and self.stores_attr(name):
            return None
        for c in self.mro():
            for st in c.node.body:
                tgt = None
                if isinstance(st, ast.Assign) and len(st.targets) == 1 and isinstance(st.targets[0], ast.Name):
                    tgt, val = st.targets[0].id, st.value
                elif isinstance(st, ast.AnnAssign) and isinstance(st.target, ast.Name) and st.value is not None:
                    tgt, val = st.target.id, st.value
                    if instance and tgt == name:
                        return None
                if tgt == name:
                    if (id(c), name) not in c._consts:
                        c._consts[(id(c), name)] = None       # recursion guard
                        c._consts[(id(c), name)] = c.module.resolve_expr(val, cls=c)
                    return c._consts[(id(c), name)]
        return None


_funcrefs = {}


def _funcref_of(node, module, cls=None):
    k = id(node)
    if k not in _funcrefs:
        _funcrefs[k] = FuncRef(node, module, cls)
    return _funcrefs[k]


FuncRef.of = staticmethod(_funcref_of)


class Module:
    def __init__(self, repo, fq, path, is_pkg):
        self.repo, self.fq, self.path, self.is_pkg = repo, fq, path, is_pkg
        self.tree = ast.parse(path.read_text())
        self._sym = {}
        self._busy = set()
        self._classes = {}
        self.defs = {}          # name -> last top-level statement binding it
        for st in self.tree.body:
            for nm in _bound_names(st):
                self.defs[nm] = st
        # names bound inside `if` / `try` at module level (compat shims): first binding wins
        for st in self.tree.body:
            if isinstance(st, (ast.If, ast.Try)):
                for sub in ast.walk(st):
                    if isinstance(sub, (ast.Import, ast.ImportFrom, ast.Assign, ast.FunctionDef, ast.AsyncFunctionDef, ast.ClassDef)):
                        for nm in _bound_names(sub):
                            self.defs.setdefault(nm, sub)

    def package(self):
        return self.fq if self.is_pkg else self.fq.rpartition('.')[0]

    def classref(self, node):
        if id(node) not in self._classes:
            self._classes[id(node)] = ClassRef(node, self)
        return self._classes[id(node)]

    def lookup(self, name):
        """module-level name → term (None when the module does not bind it)"""
        if name in self._sym:
            return self._sym[name]
        st = self.defs.get(name)
        if st is None:
            return None
        if name in self._busy:
            return mk('g', f'{self.fq}.{name}')
        self._busy.add(name)
        try:
            t = self._lookup(name, st)
        finally:
            self._busy.discard(name)
        self._sym[name] = t
        return t

    def _lookup(self, name, st):
        if isinstance(st, (ast.FunctionDef, ast.AsyncFunctionDef)):
            return mk('fn', FuncRef.of(st, self))
        if isinstance(st, ast.ClassDef):
            return mk('cls', self.classref(st))
        if isinstance(st, ast.Import):
            for al in st.names:
                bound = al.asname or al.name.split('.')[0]
                if bound == name:
                    return self.repo.global_ref(al.name if al.asname else al.name.split('.')[0])
        if isinstance(st, ast.ImportFrom):
            base = st.module or ''
            if st.level:
                pk = self.package().split('.')
                pk = pk[:len(pk) - (st.level - 1)] if st.level > 1 else pk
                base = '.'.join(pk + ([st.module] if st.module else []))
            for al in st.names:
                if (al.asname or al.name) == name:
                    return self.repo.global_ref(f'{base}.{al.name}')
        if isinstance(st, (ast.Assign, ast.AnnAssign)):
            val = st.value
            tgt = st.targets[0] if isinstance(st, ast.Assign) else st.target
            if val is not None and isinstance(tgt, ast.Name):
                t = self.resolve_expr(val)
                if t is not None and t.op in ('k', 'g', 'fn', 'cls'):
                    return t
                # a computed module constant: keep a global reference that remembers its defining expression
                return mk('gv', f'{self.fq}.{name}', t if t is not None else mk('unk', f'{self.fq}.{name}'))
        return mk('g', f'{self.fq}.{name}')

    def resolve_expr(self, node, cls=None):
        """evaluate an expression in module (or class-body) scope, without recording events"""
        ex = Exec(self.repo, events_off=True)
        fr = Frame(None, self, None, cls)
        if cls is not None:
            fr.class_scope = cls
        ex.frame = fr
        try:
            return ex.eval(node)
        except Budget:
            return mk('unk', 'budget')


def _bound_names(st):
    if isinstance(st, (ast.FunctionDef, ast.AsyncFunctionDef, ast.ClassDef)):
        return [st.name]
    if isinstance(st, ast.Import):
        return [al.asname or al.name.split('.')[0] for al in st.names]
    if isinstance(st, ast.ImportFrom):
        return [al.asname or al.name for al in st.names]
    if isinstance(st, ast.Assign):
        return [t.id for t in st.targets if isinstance(t, ast.Name)]
    if isinstance(st, ast.AnnAssign) and isinstance(st.target, ast.Name):
        return [st.target.id]
    return []


class Repo:
    def __init__(self, root):
        self.root = Path(root)
        self._mods = {}

    def module(self, fq):
        if fq in self._mods:
            return self._mods[fq]
        rel = Path(*fq.split('.'))
        m = None
        if (self.root / rel / '__init__.py').exists():
            m = Module(self, fq, self.root / rel / '__init__.py', True)
        elif (self.root / rel).with_suffix('.py').exists():
            m = Module(self, fq, (self.root / rel).with_suffix('.py'), False)
        self._mods[fq] = m
        return m

    def is_package_dir(self, fq):
        return (self.root / Path(*fq.split('.'))).is_dir()

    def global_ref(self, dotted):
        """dotted name → module ref / symbol of a repo module / plain global"""
        if self.module(dotted) is not None or (self.is_package_dir(dotted) and dotted.split('.')[0] == 'replicat'):
            return mk('g', dotted)
        head, _, last = dotted.rpartition('.')
        if head:
            m = self.module(head)
            if m is not None:
                t = m.lookup(last)
                if t is not None:
                    return t
        return mk('g', dotted)

    def attr_of_global(self, dotted, name):
        m = self.module(dotted)
        if m is not None:
            t = m.lookup(name)
            if t is not None:
                return t
            return self.global_ref(f'{dotted}.{name}')
        return self.global_ref(f'{dotted}.{name}')

    def func(self, modfq, *path):
        """FuncRef of `modfq:Class.method` / `modfq:function` (None if absent)"""
        m = self.module(modfq)
        if m is None:
            return None
        if len(path) == 1:
            t = m.lookup(path[0])
            return t.a[0] if t is not None and t.op == 'fn' else None
        t = m.lookup(path[0])
        if t is None or t.op != 'cls':
            return None
        return t.a[0].find_method(path[1])

    def cls(self, modfq, name):
        m = self.module(modfq)
        t = m.lookup(name) if m is not None else None
        return t.a[0] if t is not None and t.op == 'cls' else None


_REPOS = {}


def shared_repo(root):
    """one `Repo` per checkout and process (the plug-ins of one extractor run share the parsed modules)"""
    k = str(Path(root).resolve())
    if k not in _REPOS:
        _REPOS[k] = Repo(root)
    return _REPOS[k]


# ------------------------------------------------------------------ events
class Event:
    __slots__ = ('id', 'kind', 'pc', 'ctx', 'stack', 'f', 'args', 'kwargs', 'value', 'obj', 'name', 'key', 'inlined', 'node', 'result')

    def __init__(self, **kw):
        for s in self.__slots__:
            setattr(self, s, kw.get(s))

    def __repr__(self):
        if self.kind == 'call':
            return f'<#{self.id} call {show(self.f)} args={show(self.args)} kw={show(self.kwargs)} pc={show(self.pc)}>'
        return f'<#{self.id} {self.kind} {show(self.obj) if self.obj is not None else ""} {self.name or ""} {show(self.value) if self.value is not None else ""} pc={show(self.pc)}>'

    def fq(self):
        """fully-qualified name of the callee (functions of the repo, globals), else None"""
        return callee_name(self.f) if self.kind == 'call' else None

    def in_ctx(self, kind):
        return any(c[0] == kind for c in self.ctx)

    def arg(self, i, kw=None):
        """positional argument i, or keyword `kw`"""
        if kw is not None:
            for k, v in self.kwargs:
                if k == kw:
                    return v
        if i is not None and i < len(self.args) and not (self.args[i].op == 'star'):
            if not any(a.op == 'star' for a in self.args[:i]):
                return self.args[i]
        return None


def callee_name(f):
    if not isinstance(f, T):
        return None
    if f.op == 'g':
        return f.a[0]
    if f.op == 'gv':
        return f.a[0]
    if f.op == 'fn':
        return f.a[0].fq
    if f.op == 'cls':
        return f.a[0].fq
    if f.op == 'bound':
        return f.a[0].fq
    return None


def split_method(f):
    """callee `<receiver>.name` → (receiver term, name); None when the callee is not an attribute access"""
    if not isinstance(f, T):
        return None
    if f.op == 'attr':
        return f.a[0], f.a[1]
    if f.op == 'bound':
        return f.a[1], f.a[0].name
    if f.op == 'g' and '.' in f.a[0]:
        head, _, last = f.a[0].rpartition('.')
        return mk('g', head), last
    return None


def method_call(ev, name):
    """`<receiver>.name(…)` → receiver term, else None"""
    if ev.kind != 'call':
        return None
    sm = split_method(ev.f)
    return sm[0] if sm is not None and sm[1] == name else None


# ------------------------------------------------------------------ execution
class Frame:
    def __init__(self, func, module, parent, cls=None):
        self.func, self.module, self.parent, self.cls = func, module, parent, cls
        self.vars = {}
        self.returns = []
        self.pc_base = 0
        self.nonlocals = set()
        self.class_scope = None
        self.yields = []


BIN = {ast.Add: '+', ast.Sub: '-', ast.Mult: '*', ast.Div: '/', ast.FloorDiv: '//', ast.Mod: '%', ast.Pow: '**', ast.LShift: '<<',
       ast.RShift: '>>', ast.BitOr: '|', ast.BitAnd: '&', ast.BitXor: '^', ast.MatMult: '@'}
CMPOP = {ast.Eq: '==', ast.NotEq: '!=', ast.Lt: '<', ast.LtE: '<=', ast.Gt: '>', ast.GtE: '>=', ast.Is: 'is', ast.IsNot: 'isnot',
         ast.In: 'in', ast.NotIn: 'notin'}
UN = {ast.USub: '-', ast.UAdd: '+', ast.Invert: '~'}


def NOT(t):
    if t.op == 'not':
        return t.a[0]
    if t.op == 'k':
        return K(not t.a[0])
    return mk('not', t)


def AND(ts):
    out = []
    for t in ts:
        if t.op == 'k' and isinstance(t.a[0], bool):
            if not t.a[0]:
                return FALSE
            continue
        if t.op == 'and':
            out.extend(t.a[0])
        else:
            out.append(t)
    if not out:
        return TRUE
    return out[0] if len(out) == 1 else mk('and', tuple(out))


def OR(ts):
    out = []
    for t in ts:
        if t.op == 'k' and isinstance(t.a[0], bool):
            if t.a[0]:
                return TRUE
            continue
        if t.op == 'or':
            out.extend(t.a[0])
        else:
            out.append(t)
    if not out:
        return FALSE
    return out[0] if len(out) == 1 else mk('or', tuple(out))


def PHI(c, a, b):
    if a is b:
        return a
    if c.op == 'k':
        return a if c.a[0] else b
    if c.op == 'not':
        return mk('phi', c.a[0], b, a)
    return mk('phi', c, a, b)


_UID = itertools.count(1)


class Exec:
    MAX_DEPTH = 7
    MAX_EVENTS = 60000

    def __init__(self, repo, inline=None, events_off=False, max_depth=None):
        self.repo = repo
        self.inline = inline or same_module_policy
        self.events = []
        self.events_off = events_off
        self.pc = ()
        self.ctx = ()
        self.frame = None
        self.stack = []            # FuncRefs being executed
        self.loops = {}            # loop id -> dict(kind, iter, cond, init, update, node, target)
        self.uid = _UID            # process-wide: two displays / calls never share an id, whichever run made them
        self.callbacks_done = set()
        self.loop_stack = []
        self.call_args = ((), ())
        self.max_depth = max_depth or self.MAX_DEPTH

    # ---- entry
    def run(self, func, args=None, self_term=None):
        """execute FuncRef `func` with symbolic parameters; returns the return-value term"""
        params = {}
        a = func.node.args
        names = [x.arg for x in a.posonlyargs + a.args] + [x.arg for x in a.kwonlyargs]
        if a.vararg:
            names.append(a.vararg.arg)
        if a.kwarg:
            names.append(a.kwarg.arg)
        for n in names:
            params[n] = mk('p', n)
        if args:
            params.update(args)
        if self_term is None and func.cls is not None and func.kind() == 'method' and names:
            self_term = mk('self', func.cls)
        if self_term is not None and names:
            params[names[0]] = self_term
        fr = Frame(func, func.module, func.closure, func.cls)
        fr.vars = params
        return self._run_frame(fr, func)

    def _run_frame(self, fr, func):
        saved = (self.frame, self.pc)
        self.frame = fr
        fr.pc_base = len(self.pc)
        self.stack.append(func)
        try:
            body = func.node.body
            if isinstance(func.node, ast.Lambda):
                val = self.eval(body)
                fr.returns.append((self.pc[fr.pc_base:], val))
            else:
                ft = self.block(body)
                if ft is not FALSE:
                    fr.returns.append((self.pc[fr.pc_base:], NONE))
        finally:
            self.stack.pop()
            self.frame, self.pc = saved
        out = None
        for conds, v in reversed(fr.returns):
            out = v if out is None else PHI(AND(conds), v, out)
        if fr.yields:
            out = mk('gen', tuple(fr.yields), next(self.uid))
        return out if out is not None else mk('unk', 'noreturn')

    # ---- events
    def emit_event(self, kind, **kw):
        if self.events_off:
            return None
        if len(self.events) > self.MAX_EVENTS:
            raise Budget('too many events')
        ev = Event(id=len(self.events), kind=kind, pc=self.pc, ctx=self.ctx, stack=tuple(self.stack), **kw)
        self.events.append(ev)
        return ev

    # ---- names
    def lookup(self, name):
        fr = self.frame
        first = True
        while fr is not None:
            if name in fr.vars and (first or fr.class_scope is None):
                return fr.vars[name]
            if fr.class_scope is not None and first:
                c = fr.class_scope.find_const(name)
                if c is not None:
                    return c
            first = False
            fr = fr.parent
        m = self.frame.module
        t = m.lookup(name)
        if t is not None:
            return t
        return mk('g', name)        # builtin / unknown global

    def bind(self, name, value):
        fr = self.frame
        if name in fr.nonlocals:
            p = fr.parent
            while p is not None:
                if name in p.vars:
                    p.vars[name] = value
                    return
                p = p.parent
        fr.vars[name] = value

    # ---- blocks / statements; return value = fall-through condition (TRUE / FALSE / term)
    def block(self, stmts):
        entry = self.pc
        acc = []
        for st in stmts:
            ft = self.stmt(st)
            if ft is FALSE:
                self.pc = entry
                return FALSE
            if ft is not TRUE:
                acc.append(ft)
                self.pc = self.pc + (ft,)
        self.pc = entry
        return AND(acc)

    def branch(self, cond, body, orelse):
        """if cond: body else: orelse — merges the variables, returns the fall-through condition"""
        fr = self.frame
        saved = dict(fr.vars)
        entry = self.pc
        self.pc = entry + ((cond,) if cond is not TRUE else ())
        ft1 = self.block(body) if cond is not FALSE else FALSE
        v1 = fr.vars
        fr.vars = dict(saved)
        self.pc = entry + ((NOT(cond),) if cond is not FALSE else ())
        ft2 = self.block(orelse) if cond is not TRUE else FALSE
        v2 = fr.vars
        self.pc = entry
        if ft1 is FALSE and ft2 is FALSE:
            fr.vars = saved
            return FALSE
        if ft1 is FALSE:
            fr.vars = v2
            return AND([NOT(cond), ft2])
        if ft2 is FALSE:
            fr.vars = v1
            return AND([cond, ft1])
        merged = {}
        for k in set(v1) | set(v2):
            a, b = v1.get(k), v2.get(k)
            if a is None:
                a = mk('undef', k)
            if b is None:
                b = mk('undef', k)
            merged[k] = PHI(cond, a, b)
        fr.vars = merged
        if ft1 is TRUE and ft2 is TRUE:
            return TRUE
        return OR([AND([cond, ft1]), AND([NOT(cond), ft2])])

    def stmt(self, st):
        m = getattr(self, 'st_' + type(st).__name__, None)
        if m is None:
            self.emit_event('unknown-stmt', node=st)
            return TRUE
        return m(st)

    def st_Pass(self, st):
        return TRUE

    st_Global = st_Pass

    def st_Nonlocal(self, st):
        self.frame.nonlocals.update(st.names)
        return TRUE

    def st_Expr(self, st):
        self.eval(st.value)
        return TRUE

    def st_Import(self, st):
        for al in st.names:
            self.bind(al.asname or al.name.split('.')[0], self.repo.global_ref(al.name if al.asname else al.name.split('.')[0]))
        return TRUE

    def st_ImportFrom(self, st):
        m = self.frame.module
        base = st.module or ''
        if st.level:
            pk = m.package().split('.')
            pk = pk[:len(pk) - (st.level - 1)] if st.level > 1 else pk
            base = '.'.join(pk + ([st.module] if st.module else []))
        for al in st.names:
            self.bind(al.asname or al.name, self.repo.global_ref(f'{base}.{al.name}'))
        return TRUE

    def st_FunctionDef(self, st):
        fr = FuncRef(st, self.frame.module, None, closure=self.frame,
                     fq=f'{self.frame.func.fq if self.frame.func else self.frame.module.fq}.<locals>.{st.name}')
        self.bind(st.name, mk('fn', fr))
        return TRUE

    st_AsyncFunctionDef = st_FunctionDef

    def st_ClassDef(self, st):
        self.bind(st.name, mk('unk', f'class {st.name}'))
        return TRUE

    def st_Return(self, st):
        v = self.eval(st.value) if st.value is not None else NONE
        fr = self.frame
        fr.returns.append((self.pc[fr.pc_base:], v))
        self.emit_event('return', value=v, node=st)
        return FALSE

    def st_Raise(self, st):
        v = self.eval(st.exc) if st.exc is not None else mk('reraise')
        self.emit_event('raise', value=v, node=st)
        return FALSE

    def st_Break(self, st):
        self.emit_event('break', node=st)
        return FALSE

    def st_Continue(self, st):
        self.emit_event('continue', node=st)
        if self.loop_stack and self.loop_stack[-1]['frame'] is self.frame:
            rec = self.loop_stack[-1]
            rec['continues'].append((self.pc[rec['body_pc']:], dict(self.frame.vars)))
        return FALSE

    def st_Assert(self, st):
        c = self.eval(st.test)
        entry = self.pc
        self.pc = entry + (NOT(c),)
        self.emit_event('raise', value=mk('call', mk('g', 'AssertionError'), (), (), next(self.uid)), node=st)
        self.pc = entry
        return c

    def st_Delete(self, st):
        for t in st.targets:
            if isinstance(t, ast.Subscript):
                self.emit_event('delitem', obj=self.eval(t.value), key=self.eval_index(t.slice), node=st)
            elif isinstance(t, ast.Attribute):
                self.emit_event('delattr', obj=self.eval(t.value), name=t.attr, node=st)
            elif isinstance(t, ast.Name):
                self.frame.vars.pop(t.id, None)
        return TRUE

    def st_Assign(self, st):
        v = self.eval(st.value)
        for t in st.targets:
            self.assign(t, v, st)
        return TRUE

    def st_AnnAssign(self, st):
        if st.value is not None:
            self.assign(st.target, self.eval(st.value), st)
        return TRUE

    def st_AugAssign(self, st):
        cur = self.eval(_as_load(st.target))
        v = self.eval(st.value)
        op = BIN.get(type(st.op), '?')
        if op == '|' and self._is_local_dict(cur):
            new = mk('merge', cur, v, next(self.uid))
            self._rebind_object(cur, new)
            return TRUE
        self.assign(st.target, self.binop(op, cur, v), st)
        return TRUE

    def assign(self, target, v, st=None):
        if isinstance(target, ast.Name):
            self.bind(target.id, v)
        elif isinstance(target, (ast.Tuple, ast.List)):
            elts = target.elts
            star = [i for i, e in enumerate(elts) if isinstance(e, ast.Starred)]
            items = v.a[0] if v.op in ('tuple', 'list') and not any(x.op == 'star' for x in v.a[0]) else None
            if items is None and v.op == 'k' and isinstance(v.a[0], tuple):
                items = tuple(K(x) for x in v.a[0])
            if not star:
                for i, e in enumerate(elts):
                    self.assign(e, items[i] if items is not None and len(items) == len(elts) else self.item(v, K(i)), st)
            else:
                s = star[0]
                after = len(elts) - s - 1
                for i, e in enumerate(elts):
                    if i < s:
                        self.assign(e, items[i] if items is not None else self.item(v, K(i)), st)
                    elif i == s:
                        self.assign(e.value, mk('slice', v, K(s), K(-after) if after else NONE, NONE), st)
                    else:
                        self.assign(e, self.item(v, K(i - len(elts))), st)
        elif isinstance(target, ast.Attribute):
            obj = self.eval(target.value)
            self.emit_event('setattr', obj=obj, name=target.attr, value=v, node=st)
        elif isinstance(target, ast.Subscript):
            obj = self.eval(target.value)
            key = self.eval_index(target.slice)
            self.emit_event('setitem', obj=obj, key=key, value=v, node=st)
            if self._is_local_dict(obj):
                self._rebind_object(obj, mk('merge', obj, mk('dict', ((key, v),), next(self.uid)), next(self.uid)))
        elif isinstance(target, ast.Starred):
            self.assign(target.value, v, st)

    def _is_local_dict(self, t):
        return t.op in ('dict', 'merge')

    def _held_by_local(self, t):
        fr = self.frame
        while fr is not None:
            if any(v is t for v in fr.vars.values()):
                return t.op not in ('p', 'self', 'g', 'gv', 'k')
            fr = fr.parent
        return False

    def _rebind_object(self, old, new):
        fr = self.frame
        while fr is not None:
            for k, v in list(fr.vars.items()):
                if v is old:
                    fr.vars[k] = new
            fr = fr.parent

    def st_If(self, st):
        return self.branch(self.eval_cond(st.test), st.body, st.orelse)

    def _assigned(self, stmts):
        out = set()
        for st in stmts:
            for n in ast.walk(st):
                if isinstance(n, (ast.FunctionDef, ast.AsyncFunctionDef, ast.Lambda, ast.ClassDef)):
                    if isinstance(n, (ast.FunctionDef, ast.AsyncFunctionDef, ast.ClassDef)):
                        out.add(n.name)
                    continue
                if isinstance(n, ast.Name) and isinstance(n.ctx, ast.Store):
                    out.add(n.id)
        return out

    def _loop(self, kind, st, iter_term=None):
        fr = self.frame
        L = next(self.uid)
        assigned = self._assigned(st.body) | (self._assigned([ast.Expr(st.test)]) if kind == 'while' else set())
        init = {}
        for v in assigned:
            if v in fr.vars:
                init[v] = fr.vars[v]
                fr.vars[v] = mk('lv', L, v)
        rec = self.loops[L] = {'id': L, 'kind': kind, 'iter': iter_term, 'cond': None, 'init': init, 'update': {}, 'node': st,
                               'pc': self.pc, 'ctx': self.ctx, 'elem': mk('elem', L), 'continues': [], 'frame': fr}
        self.loop_stack.append(rec)
        entry_pc, entry_ctx = self.pc, self.ctx
        before = dict(fr.vars)
        self.ctx = entry_ctx + (('loop', L),)
        rec['body_pc'] = len(self.pc)
        if kind == 'for':
            self.assign(st.target, rec['elem'], st)
            ft = self.block(st.body)
        else:
            c = self.eval_cond(st.test)
            rec['cond'] = c
            self.pc = entry_pc + (c,)
            rec['body_pc'] = len(self.pc)        # (inside the body the loop condition holds: not part of a `continue`'s condition)
            ft = self.block(st.body)
        rec['body_ft'] = ft
        self.loop_stack.pop()
        # the value a variable has when the next iteration starts: end of the body, or one of the `continue`s
        upd = {}
        for v in assigned:
            out = fr.vars.get(v) if ft is not FALSE else None
            for conds, snap in reversed(rec['continues']):
                sv = snap.get(v)
                if sv is None:
                    sv = mk('undef', v)
                out = sv if out is None else PHI(AND(conds), sv, out)
            if out is not None:
                upd[v] = out
        rec['update'] = upd
        self.pc, self.ctx = entry_pc, entry_ctx
        for v, t in before.items():
            if v not in assigned and fr.vars.get(v) is not t:
                fr.vars[v] = t          # an object mutated inside the loop: the same object afterwards (contents not modelled)
        for v in assigned:
            if v in fr.vars or v in init:
                fr.vars[v] = mk('lo', L, v)
        if st.orelse:
            self.block(st.orelse)
        return TRUE

    def st_For(self, st):
        it = self.eval(st.iter)
        items = None
        if it.op in ('tuple', 'list') and not any(x.op == 'star' for x in it.a[0]):
            items = it.a[0]
        elif it.op == 'k' and isinstance(it.a[0], tuple):
            items = tuple(K(x) for x in it.a[0])
        if items is not None and len(items) <= 8 and not st.orelse and not any(isinstance(n, (ast.Break, ast.Continue)) for b in st.body for n in ast.walk(b)):
            # a loop over a known, short sequence: the body once per element, in order (no `break` / `continue` inside)
            acc = []
            for x in items:
                self.assign(st.target, x, st)
                ft = self.block(st.body)
                if ft is FALSE:
                    return FALSE
                if ft is not TRUE:
                    acc.append(ft)
                    self.pc = self.pc + (ft,)
            return AND(acc)
        return self._loop('for', st, it)

    st_AsyncFor = st_For

    def st_While(self, st):
        return self._loop('while', st)

    def st_With(self, st):
        entry_ctx = self.ctx
        W = next(self.uid)
        for item in st.items:
            c = self.eval(item.context_expr)
            self.emit_event('with', obj=c, node=st, key=W)
            if item.optional_vars is not None:
                self.assign(item.optional_vars, mk('enter', c), st)
        self.ctx = entry_ctx + (('with', W),)
        ft = self.block(st.body)
        self.ctx = entry_ctx
        return ft

    st_AsyncWith = st_With

    def st_Try(self, st):
        fr = self.frame
        Tn = next(self.uid)
        entry_pc, entry_ctx = self.pc, self.ctx
        pre = dict(fr.vars)
        assigned = self._assigned(st.body)
        # the conditions "handler i catches": atoms; "no exception was caught" = none of them
        hconds = []
        for i, h in enumerate(st.handlers):
            types = self._eval_quiet(h.type) if h.type is not None else mk('g', 'BaseException')
            hconds.append(mk('exc', Tn, i, types))
        noexc = NOT(OR(hconds)) if hconds else TRUE
        self.ctx = entry_ctx + (('try', Tn),)
        ft_body = self.block(st.body)
        outs = []      # (cond term or None, vars, ft)
        if ft_body is not FALSE:
            if ft_body is not TRUE:
                self.pc = self.pc + (ft_body,)
            if st.orelse:
                self.ctx = entry_ctx + (('else', Tn),)
                if noexc is not TRUE:
                    self.pc = self.pc + (noexc,)
                ft_else = self.block(st.orelse)
                self.pc = entry_pc
                ft_b = AND([ft_body, ft_else]) if ft_else is not FALSE else FALSE
            else:
                ft_b = ft_body
            if ft_b is not FALSE:
                outs.append((None, fr.vars, ft_b))
        self.pc = entry_pc
        post = fr.vars
        for i, h in enumerate(st.handlers):
            hv = dict(post)
            for v in assigned:
                if v in pre:
                    hv[v] = pre[v] if post.get(v) is pre[v] else mk('maybe', Tn, v, pre[v], post.get(v, mk('undef', v)))
                elif v in hv:
                    hv[v] = mk('maybe', Tn, v, mk('undef', v), post[v])
            fr.vars = hv
            cond = hconds[i]
            if h.name:
                fr.vars[h.name] = mk('caught', Tn, i)
            self.ctx = entry_ctx + (('handler', Tn, i),)
            self.pc = entry_pc + (cond,)
            ft_h = self.block(h.body)
            self.pc = entry_pc
            if ft_h is not FALSE:
                outs.append((cond, fr.vars, ft_h))
        self.ctx = entry_ctx
        if not outs:
            fr.vars = post
            result = FALSE
        else:
            # merge: handlers first (their condition is explicit), the normal path is the final else
            normal = [o for o in outs if o[0] is None]
            hand = [o for o in outs if o[0] is not None]
            if normal:
                cur_vars = normal[0][1]
                total_ft = [AND([noexc, normal[0][2]])]
            else:
                cur_vars = hand[-1][1]
                total_ft = [AND([hand[-1][0], hand[-1][2]])]
                hand = hand[:-1]
            for cond, vs, ft in reversed(hand):
                merged = {}
                for k in set(vs) | set(cur_vars):
                    a = vs.get(k) or mk('undef', k)
                    b = cur_vars.get(k) or mk('undef', k)
                    merged[k] = PHI(cond, a, b)
                cur_vars = merged
                total_ft.append(AND([cond, ft]))
            fr.vars = cur_vars
            if normal and normal[0][2] is TRUE and len(hand) == len(st.handlers) and all(o[2] is TRUE for o in hand):
                result = TRUE           # every way out of the statement falls through
            else:
                result = OR(total_ft)
        if st.finalbody:
            self.ctx = entry_ctx + (('finally', Tn),)
            ftf = self.block(st.finalbody)
            self.ctx = entry_ctx
            if ftf is FALSE:
                return FALSE
        return result

    def _eval_quiet(self, node):
        saved = self.events_off
        self.events_off = True
        try:
            return self.eval(node)
        finally:
            self.events_off = saved

    st_TryStar = st_Try

    def st_Match(self, st):
        self.eval(st.subject)
        self.emit_event('unknown-stmt', node=st)
        for v in self._assigned(st.cases and [s for c in st.cases for s in c.body]):
            self.frame.vars[v] = mk('unk', f'match:{v}')
        return TRUE

    # ---- expressions
    def eval_cond(self, node):
        return self.eval(node)

    def eval(self, node):
        m = getattr(self, 'ex_' + type(node).__name__, None)
        if m is None:
            return mk('unk', type(node).__name__, next(self.uid))
        return m(node)

    def ex_Constant(self, n):
        return K(n.value)

    def ex_Name(self, n):
        return self.lookup(n.id)

    def ex_NamedExpr(self, n):
        v = self.eval(n.value)
        self.assign(n.target, v)
        return v

    def ex_Await(self, n):
        return self.eval(n.value)

    def ex_Starred(self, n):
        return mk('star', self.eval(n.value))

    def ex_Yield(self, n):
        v = self.eval(n.value) if n.value is not None else NONE
        self.frame.yields.append(v)
        self.emit_event('yield', value=v, node=n)
        return mk('unk', 'sent', next(self.uid))

    def ex_YieldFrom(self, n):
        v = self.eval(n.value)
        self.frame.yields.append(mk('star', v))
        self.emit_event('yield', value=mk('star', v), node=n)
        return mk('unk', 'sent', next(self.uid))

    def ex_Attribute(self, n):
        return self.attr(self.eval(n.value), n.attr)

    def attr(self, base, name):
        if base.op == 'g':
            return self.repo.attr_of_global(base.a[0], name)
        if base.op == 'phi':
            pass
        cls = self._class_of(base)
        if cls is not None:
            m = cls.find_method(name)
            if m is not None:
                k = m.kind()
                if k == 'staticmethod':
                    return mk('fn', m)
                if any(ast.unparse(d) in ('property', 'cached_property', 'functools.cached_property') for d in m.node.decorator_list):
                    return mk('attr', base, name)
                return mk('bound', m, base)
            c = cls.find_const(name, instance=True)
            if c is not None and c.op in ('k', 'g', 'fn', 'cls', 'gv', 'dict', 'tuple', 'list', 'set', 'merge'):
                return c
        if base.op == 'cls':
            c = base.a[0].find_const(name)
            if c is not None and c.op in ('k', 'g', 'fn', 'cls', 'gv'):
                return c
            m = base.a[0].find_method(name)
            if m is not None:
                return mk('bound', m, base) if m.kind() == 'classmethod' else mk('fn', m)
        return mk('attr', base, name)

    def _class_of(self, t):
        """ClassRef of the object a term denotes, when known"""
        if t.op == 'self':
            return t.a[0]
        if t.op == 'call' and t.a[0].op == 'cls':
            return t.a[0].a[0]
        return None

    @property
    def _root_cls(self):
        fr = self.frame
        while fr is not None:
            if fr.cls is not None:
                return fr.cls
            fr = fr.parent
        return None

    def ex_Subscript(self, n):
        return self.item(self.eval(n.value), self.eval_index(n.slice))

    def eval_index(self, s):
        if isinstance(s, ast.Slice):
            return mk('sl', self.eval(s.lower) if s.lower else NONE, self.eval(s.upper) if s.upper else NONE,
                      self.eval(s.step) if s.step else NONE)
        return self.eval(s)

    def item(self, base, idx):
        if idx.op == 'sl':
            lo, hi, step = idx.a
            if is_k(lo, None):
                lo = K(0)
            return mk('slice', base, lo, hi, step)
        if base.op in ('tuple', 'list') and is_k(idx) and isinstance(idx.a[0], int) and not isinstance(idx.a[0], bool):
            items = base.a[0]
            if not any(x.op == 'star' for x in items) and -len(items) <= idx.a[0] < len(items):
                return items[idx.a[0]]
        if base.op == 'k' and isinstance(base.a[0], (tuple, str)) and is_k(idx) and isinstance(idx.a[0], int):
            try:
                return K(base.a[0][idx.a[0]])
            except IndexError:
                pass
        if base.op == 'kdict' and is_k(idx):
            for k, v in base.a[0]:
                if k is idx:
                    return v
        return mk('item', base, idx)

    def ex_Tuple(self, n):
        items = tuple(self.eval(e) for e in n.elts)
        if all(i.op == 'k' for i in items):
            return K(tuple(i.a[0] for i in items))
        return mk('tuple', items)

    def ex_List(self, n):
        return mk('list', tuple(self.eval(e) for e in n.elts), next(self.uid))

    def ex_Set(self, n):
        items = tuple(self.eval(e) for e in n.elts)
        if all(i.op == 'k' for i in items):
            try:
                return K(frozenset(i.a[0] for i in items))
            except TypeError:
                pass
        return mk('set', items, next(self.uid))

    def ex_Dict(self, n):
        layers, cur = [], []
        for k, v in zip(n.keys, n.values):
            if k is None:
                if cur:
                    layers.append(mk('dict', tuple(cur), next(self.uid)))
                    cur = []
                layers.append(self.eval(v))
            else:
                cur.append((self.eval(k), self.eval(v)))
        if cur or not layers:
            layers.append(mk('dict', tuple(cur), next(self.uid)))
        out = layers[0]
        if len(layers) > 1 and out.op not in ('dict', 'merge'):
            out = mk('merge', mk('dict', (), next(self.uid)), out, next(self.uid))
        for l in layers[1:]:
            out = mk('merge', out, l, next(self.uid))
        return out

    def ex_JoinedStr(self, n):
        parts = []
        for v in n.values:
            if isinstance(v, ast.Constant):
                parts.append(K(v.value))
            else:
                parts.append(mk('fmt', self.eval(v.value), v.conversion, ast.unparse(v.format_spec) if v.format_spec else ''))
        if all(p.op == 'k' for p in parts):
            return K(''.join(p.a[0] for p in parts))
        return mk('fstr', tuple(parts))

    def ex_IfExp(self, n):
        c = self.eval(n.test)
        entry = self.pc
        self.pc = entry + (c,)
        a = self.eval(n.body)
        self.pc = entry + (NOT(c),)
        b = self.eval(n.orelse)
        self.pc = entry
        return PHI(c, a, b)

    def ex_BoolOp(self, n):
        vals = []
        entry = self.pc
        is_and = isinstance(n.op, ast.And)
        for v in n.values:
            t = self.eval(v)
            vals.append(t)
            self.pc = self.pc + ((t if is_and else NOT(t)),)      # short-circuit: later operands run only if …
        self.pc = entry
        return AND(vals) if is_and else OR(vals)

    def ex_UnaryOp(self, n):
        v = self.eval(n.operand)
        if isinstance(n.op, ast.Not):
            return NOT(v)
        op = UN[type(n.op)]
        if v.op == 'k' and isinstance(v.a[0], (int, float)) and not isinstance(v.a[0], bool):
            return K(-v.a[0] if op == '-' else +v.a[0] if op == '+' else ~v.a[0])
        return mk('un', op, v)

    def ex_BinOp(self, n):
        return self.binop(BIN.get(type(n.op), '?'), self.eval(n.left), self.eval(n.right))

    def binop(self, op, a, b):
        if a.op == 'k' and b.op == 'k':
            x, y = a.a[0], b.a[0]
            try:
                if isinstance(x, (int, float)) and isinstance(y, (int, float)) and not isinstance(x, bool) and not isinstance(y, bool):
                    if op in ('+', '-', '*', '//', '%', '<<', '|', '&', '^') or (op == '**' and isinstance(y, int) and 0 <= y < 64):
                        if not (op == '<<' and y > 256):
                            return K(eval(f'x {op} y', {'x': x, 'y': y}))  # noqa: S307 — numbers only
                if isinstance(x, str) and isinstance(y, str) and op == '+':
                    return K(x + y)
                if isinstance(x, tuple) and isinstance(y, tuple) and op == '+':
                    return K(x + y)
                if isinstance(x, frozenset) and isinstance(y, frozenset) and op == '|':
                    return K(x | y)
            except Exception:  # noqa: BLE001
                pass
        if op == '|' and (a.op in ('dict', 'merge') or b.op in ('dict', 'merge')):
            return mk('merge', a, b, next(self.uid))
        return mk('bin', op, a, b)

    def ex_Compare(self, n):
        parts = []
        left = self.eval(n.left)
        for op, c in zip(n.ops, n.comparators):
            right = self.eval(c)
            parts.append(self.compare(CMPOP[type(op)], left, right))
            left = right
        return AND(parts) if len(parts) > 1 else parts[0]

    def compare(self, op, a, b):
        if a.op == 'k' and b.op == 'k':
            x, y = a.a[0], b.a[0]
            try:
                if op in ('==', '!='):
                    return K((x == y) == (op == '=='))
                if op in ('in', 'notin') and isinstance(y, (tuple, frozenset, str)):
                    return K((x in y) == (op == 'in'))
                if op in ('is', 'isnot') and (x is None or y is None):
                    return K(((x is None) == (y is None)) == (op == 'is'))
                if op in ('<', '<=', '>', '>=') and isinstance(x, (int, float)) and isinstance(y, (int, float)):
                    return K({'<': x < y, '<=': x <= y, '>': x > y, '>=': x >= y}[op])
            except Exception:  # noqa: BLE001
                pass
        if op in ('is', 'isnot') and (is_k(a, None) or is_k(b, None)):
            other = b if is_k(a, None) else a
            if other.op in ('dict', 'list', 'tuple', 'merge', 'set', 'fn', 'cls', 'comp', 'fstr', 'self', 'bound', 'g'):
                return K(op == 'isnot')      # ('g' = an imported / builtin name: a function, class or module)
        return mk('cmp', op, a, b)

    def ex_Lambda(self, n):
        return mk('fn', FuncRef(n, self.frame.module, None, closure=self.frame,
                                fq=f'{self.frame.func.fq if self.frame.func else self.frame.module.fq}.<lambda@{n.lineno}>'))

    def _comp(self, n, kind, elts):
        fr = self.frame
        saved = dict(fr.vars)
        entry_pc, entry_ctx = self.pc, self.ctx
        C = next(self.uid)
        gens = []
        self.ctx = entry_ctx + (('comp', C),)
        for g in n.generators:
            it = self.eval(g.iter)
            el = mk('celem', C, len(gens))
            self.assign(g.target, el)
            conds = []
            for c in g.ifs:
                ct = self.eval(c)
                conds.append(ct)
                self.pc = self.pc + (ct,)
            gens.append((it, el, tuple(conds)))
        vals = tuple(self.eval(e) for e in elts)
        self.pc, self.ctx = entry_pc, entry_ctx
        fr.vars = saved
        return mk('comp', kind, vals, tuple(gens), C)

    def ex_ListComp(self, n):
        return self._comp(n, 'list', [n.elt])

    def ex_SetComp(self, n):
        return self._comp(n, 'set', [n.elt])

    def ex_GeneratorExp(self, n):
        return self._comp(n, 'gen', [n.elt])

    def ex_DictComp(self, n):
        return self._comp(n, 'dict', [n.key, n.value])

    def ex_FormattedValue(self, n):
        return mk('fmt', self.eval(n.value), n.conversion, '')

    def ex_Slice(self, n):
        return self.eval_index(n)

    # ---- calls
    def ex_Call(self, n):
        f = self.eval(n.func)
        args = tuple(self.eval(a) for a in n.args)
        kwargs = tuple((k.arg, self.eval(k.value)) for k in n.keywords)
        return self.call(f, args, kwargs, n)

    def call(self, f, args, kwargs, node=None):
        args, kwargs = _flatten_args(args, kwargs)
        # --- pure builtins on known values
        fold = self._fold_call(f, args, kwargs)
        if fold is not None:
            return fold
        if f.op == 'phi':
            # a callee chosen by a condition: both alternatives under their condition
            c, a, b = f.a
            entry = self.pc
            self.pc = entry + (c,)
            ra = self.call(a, args, kwargs, node)
            self.pc = entry + (NOT(c),)
            rb = self.call(b, args, kwargs, node)
            self.pc = entry
            return PHI(c, ra, rb)
        target, self_term = None, None
        if f.op == 'fn':
            target = f.a[0]
        elif f.op == 'bound':
            target, self_term = f.a[0], f.a[1]
        # local mutation models
        if f.op == 'attr' and f.a[1] == 'update' and len(args) <= 1 and (args or kwargs) and not any(a.op == 'star' for a in args) \
                and (self._is_local_dict(f.a[0]) or self._held_by_local(f.a[0])):
            new = f.a[0]
            if args:
                new = mk('merge', new, args[0], next(self.uid))
            if kwargs:
                new = mk('merge', new, mk('dict', tuple((K(k), v) for k, v in kwargs), next(self.uid)), next(self.uid))
            self.emit_event('call', f=f, args=args, kwargs=kwargs, node=node, inlined=False)
            self._rebind_object(f.a[0], new)
            return NONE
        ev = self.emit_event('call', f=f, args=args, kwargs=kwargs, node=node, inlined=False)
        eid = ev.id if ev is not None else next(self.uid)
        self.call_args = (args, kwargs)          # (a policy may look at what is handed over)
        if target is not None and target not in self.stack and len(self.stack) < self.max_depth and self.inline(target, self):
            bound = self._bind_params(target, args, kwargs, self_term)
            if bound is not None:
                if ev is not None:
                    ev.inlined = True
                fr = Frame(target, target.module, target.closure, target.cls)
                fr.vars = bound
                entry_ctx = self.ctx
                self.ctx = entry_ctx + (('call', eid, target),)
                try:
                    res = self._run_frame(fr, target)
                finally:
                    self.ctx = entry_ctx
                if ev is not None:
                    ev.result = res
                return res
        res = mk('call', f, args, kwargs, eid)
        if ev is not None:
            ev.result = res
        # closures handed to code we do not follow: executed as callbacks here
        for a in list(args) + [v for _, v in kwargs]:
            self._escape(a)
        return res

    def _escape(self, t, depth=0):
        if not isinstance(t, T) or depth > 3:
            return
        if t.op == 'fn' and t.a[0].nested:
            self.run_callback(t.a[0])
        elif t.op == 'call' and callee_name(t.a[0]) in ('functools.partial',):
            for x in t.a[1]:
                self._escape(x, depth + 1)
        elif t.op in ('star', 'tuple', 'list'):
            for x in (t.a[0] if t.op != 'star' else [t.a[0]]):
                self._escape(x, depth + 1)
        elif t.op == 'phi':
            self._escape(t.a[1], depth + 1)
            self._escape(t.a[2], depth + 1)

    def run_callback(self, func):
        if func in self.callbacks_done or func in self.stack or len(self.stack) >= self.max_depth:
            return
        self.callbacks_done.add(func)
        a = func.node.args
        params = {}
        for x in a.posonlyargs + a.args + a.kwonlyargs + ([a.vararg] if a.vararg else []) + ([a.kwarg] if a.kwarg else []):
            params[x.arg] = mk('cbp', func, x.arg)
        fr = Frame(func, func.module, func.closure, func.cls)
        fr.vars = params
        entry_ctx = self.ctx
        self.ctx = entry_ctx + (('cb', func),)
        try:
            self._run_frame(fr, func)
        finally:
            self.ctx = entry_ctx

    def _bind_params(self, func, args, kwargs, self_term):
        a = func.node.args
        pos = [x.arg for x in a.posonlyargs + a.args]
        bound = {}
        if any(x.op == 'star' for x in args):
            flat = []
            for x in args:
                if x.op == 'star':
                    inner = x.a[0]
                    if inner.op in ('tuple', 'list') and not any(y.op == 'star' for y in inner.a[0]):
                        flat.extend(inner.a[0])
                    elif inner.op == 'k' and isinstance(inner.a[0], tuple):
                        flat.extend(K(y) for y in inner.a[0])
                    else:
                        return None
                else:
                    flat.append(x)
            args = tuple(flat)
        vals = list(args)
        if self_term is not None:
            vals = [self_term] + vals
        if len(vals) > len(pos) and not a.vararg:
            return None
        for n, v in zip(pos, vals):
            bound[n] = v
        if a.vararg:
            bound[a.vararg.arg] = mk('tuple', tuple(vals[len(pos):]))
        extra = []
        kwnames = set(pos) | {x.arg for x in a.kwonlyargs}
        for k, v in kwargs:
            if k is None:
                # **mapping: only a literal dict with constant keys can be bound
                if v.op == 'dict' and all(kk.op == 'k' and isinstance(kk.a[0], str) for kk, _ in v.a[0]):
                    for kk, vv in v.a[0]:
                        if kk.a[0] in kwnames and kk.a[0] not in bound:
                            bound[kk.a[0]] = vv
                        else:
                            extra.append((kk, vv))
                elif a.kwarg and not [x for x in a.kwonlyargs if x.arg not in bound and a.kw_defaults[a.kwonlyargs.index(x)] is None]:
                    extra.append((None, v))
                else:
                    return None
            elif k in kwnames:
                if k in bound:
                    return None
                bound[k] = v
            elif a.kwarg:
                extra.append((K(k), v))
            else:
                return None
        if a.kwarg:
            named = tuple((k, v) for k, v in extra if k is not None)
            d = mk('dict', named, next(self.uid))
            for k, v in extra:
                if k is None:
                    d = mk('merge', d, v, next(self.uid))
            bound[a.kwarg.arg] = d
        # defaults (evaluated in the defining scope)
        defaults = dict(zip(pos[len(pos) - len(a.defaults):], a.defaults))
        for x, d in zip(a.kwonlyargs, a.kw_defaults):
            if d is not None:
                defaults[x.arg] = d
        for n in pos + [x.arg for x in a.kwonlyargs]:
            if n not in bound:
                if n not in defaults:
                    return None
                bound[n] = self._eval_in(func, defaults[n])
        return bound

    def _eval_in(self, func, node):
        saved = (self.frame, self.events_off)
        fr = Frame(None, func.module, func.closure, func.cls)
        self.frame, self.events_off = fr, True
        try:
            return self.eval(node)
        finally:
            self.frame, self.events_off = saved

    def _fold_call(self, f, args, kwargs):
        name = callee_name(f) if f.op == 'g' else None
        if name in ('max', 'min') and not kwargs and len(args) >= 2 and all(is_k(a) and isinstance(a.a[0], int) for a in args):
            return K((max if name == 'max' else min)(a.a[0] for a in args))
        if name == 'dict' and len(args) <= 1 and not (args and args[0].op == 'star'):
            # dict(), dict(m), dict(m, k=v, **n), dict(**m, **n): layers, later overriding earlier
            out = mk('dict', (), next(self.uid))
            if args:
                out = mk('merge', out, args[0], next(self.uid))
            for k, v in kwargs:
                out = mk('merge', out, v if k is None else mk('dict', ((K(k), v),), next(self.uid)), next(self.uid))
            return out
        if name in ('tuple', 'list') and len(args) == 1 and not kwargs and args[0].op in ('tuple',):
            return args[0]
        if name in ('frozenset', 'set', 'tuple') and len(args) == 1 and not kwargs and is_k(args[0]) and isinstance(args[0].a[0], (tuple, frozenset)):
            return K(frozenset(args[0].a[0]) if name != 'tuple' else tuple(args[0].a[0]))
        if name == 'len' and len(args) == 1 and is_k(args[0]) and isinstance(args[0].a[0], (str, tuple, frozenset, bytes)):
            return K(len(args[0].a[0]))
        if name == 'iter' and len(args) == 1 and not kwargs:
            return None
        if f.op == 'attr' and is_k(f.a[0]) and isinstance(f.a[0].a[0], str) and all(is_k(a) for a in args) and not kwargs \
                and f.a[1] in ('lower', 'upper', 'title', 'strip', 'lstrip', 'rstrip', 'replace', 'join', 'format', 'encode', 'split', 'startswith', 'endswith'):
            try:
                r = getattr(f.a[0].a[0], f.a[1])(*[a.a[0] for a in args])
                if isinstance(r, list):
                    r = tuple(r)
                return K(r)
            except Exception:  # noqa: BLE001
                return None
        return None


def _flatten_args(args, kwargs):
    """`f(*(<known tuple>), **{<literal dict with str keys>})` → plain positional / keyword arguments"""
    if any(x.op == 'star' for x in args):
        flat = []
        for x in args:
            inner = x.a[0] if x.op == 'star' else None
            if inner is not None and inner.op in ('tuple', 'list') and not any(y.op == 'star' for y in inner.a[0]):
                flat.extend(inner.a[0])
            elif inner is not None and inner.op == 'k' and isinstance(inner.a[0], tuple):
                flat.extend(K(y) for y in inner.a[0])
            else:
                flat.append(x)
        args = tuple(flat)
    if any(k is None for k, _ in kwargs):
        flat = []
        for k, v in kwargs:
            if k is None and v.op == 'dict' and all(kk.op == 'k' and isinstance(kk.a[0], str) for kk, _ in v.a[0]):
                flat.extend((kk.a[0], vv) for kk, vv in v.a[0])
            else:
                flat.append((k, v))
        kwargs = tuple(flat)
    return args, kwargs


def same_module_policy(target, ex):
    """default: follow nested functions and functions / methods of the module the analysed function lives in"""
    root = ex.stack[0] if ex.stack else None
    return target.nested or (root is not None and target.module is root.module)


def _as_load(node):
    import copy
    n = copy.copy(node)
    n.ctx = ast.Load()
    return n


NONE, TRUE, FALSE = K(None), K(True), K(False)


# ------------------------------------------------------------------ conditions: atoms, three-valued truth, case analysis
def atom(t):
    """condition term → (atom term, polarity) for an atomic condition, or None for a connective"""
    if t.op in ('not', 'and', 'or', 'phi', 'k'):
        return None
    if t.op == 'cmp':
        op, a, b = t.a
        if op in ('is', 'isnot'):
            if is_k(a, None):
                a, b = b, a
            if is_k(b, None):
                return mk('isnone', a), op == 'is'
            x, y = sorted([a, b], key=id)
            return mk('same', x, y), op == 'is'
        if op in ('==', '!='):
            if is_k(a) and not is_k(b):
                a, b = b, a
            elif not is_k(b):
                a, b = sorted([a, b], key=id)
            return mk('eq', a, b), op == '=='
        if op in ('in', 'notin'):
            return mk('in', a, b), op == 'in'
        if op == '<':
            return mk('lt', a, b), True
        if op == '>':
            return mk('lt', b, a), True
        if op == '>=':
            return mk('lt', a, b), False
        if op == '<=':
            return mk('lt', b, a), False
    return mk('truthy', t), True


def atoms(*terms):
    out, seen = [], set()
    for t in terms:
        for x in _cond_leaves(t):
            a = atom(x)
            if a is not None and id(a[0]) not in seen:
                seen.add(id(a[0]))
                out.append(a[0])
    return out


def phi_atoms(*terms):
    """the atoms that decide between the alternatives of VALUES (conditions of the phis inside the terms)"""
    out, seen, seen_t = [], set(), set()
    for t in terms:
        for x in _phi_conds(t, seen_t):
            a = atom(x)
            if a is not None and id(a[0]) not in seen:
                seen.add(id(a[0]))
                out.append(a[0])
    return out


def relative_pc(pc, base_pc):
    """the conjuncts of `pc` that are not already conjuncts of `base_pc` (what was added after the point `base_pc` belongs to)"""
    base = {id(c) for c in base_pc}
    return tuple(c for c in pc if id(c) not in base)


def _cond_leaves(t, seen=None):
    """the atomic conditions a term's truth / a value's phi-structure depends on"""
    seen = set() if seen is None else seen
    if isinstance(t, tuple):
        for x in t:
            yield from _cond_leaves(x, seen)
        return
    if not isinstance(t, T) or id(t) in seen:
        return
    seen.add(id(t))
    if t.op == 'not':
        yield from _cond_leaves(t.a[0], seen)
    elif t.op in ('and', 'or'):
        for x in t.a[0]:
            yield from _cond_leaves(x, seen)
    elif t.op == 'phi':
        yield from _cond_leaves(t.a[0], seen)
        yield from _cond_leaves(t.a[1], seen)
        yield from _cond_leaves(t.a[2], seen)
    elif t.op == 'k':
        return
    else:
        yield t
        # phis nested inside a value (e.g. f(phi(c, a, b)))
        for x in t.a:
            if isinstance(x, (T, tuple)):
                for y in _phi_conds(x, seen):
                    yield y


def _phi_conds(t, seen):
    if isinstance(t, tuple):
        for x in t:
            yield from _phi_conds(x, seen)
        return
    if not isinstance(t, T) or id(t) in seen:
        return
    seen.add(id(t))
    if t.op == 'phi':
        yield from _cond_leaves(t.a[0], seen)
    for x in t.a:
        if isinstance(x, (T, tuple)):
            yield from _phi_conds(x, seen)


class Val:
    """a partial valuation: atoms → bool, plus `subst` (term → term) applied to values first, plus a hook
    `decide(atom) → bool | None` for atoms that can be computed (e.g. `args.action == 'init'` when the action is fixed)"""

    def __init__(self, atoms_=None, subst=None, decide=None):
        self.atoms = {id(a): (a, v) for a, v in (atoms_ or {}).items()} if isinstance(atoms_, dict) else {}
        self.subst = subst or {}
        self.decide = decide
        self._memo = {}

    def set(self, a, v):
        self.atoms[id(a)] = (a, v)
        self._memo = {}
        return self

    def get(self, a):
        r = self.atoms.get(id(a))
        if r is not None:
            return r[1]
        if self.decide is not None:
            return self.decide(a, self)
        return None

    def sub(self, t):
        if not self.subst:
            return t
        m = {id(k): v for k, v in self.subst.items()}
        return rewrite(t, lambda x: m.get(id(x), x))


def truth(t, val):
    """three-valued truth of a condition under `val` (True / False / None = unknown)"""
    if isinstance(t, tuple):        # a path condition
        res = True
        for x in t:
            r = truth(x, val)
            if r is False:
                return False
            if r is None:
                res = None
        return res
    k = id(t)
    if k in val._memo:
        return val._memo[k]
    r = _truth(t, val)
    val._memo[k] = r
    return r


def _truth(t, val):
    if t.op == 'k':
        return bool(t.a[0])
    if t.op == 'not':
        r = truth(t.a[0], val)
        return None if r is None else not r
    if t.op == 'and':
        res = True
        for x in t.a[0]:
            r = truth(x, val)
            if r is False:
                return False
            if r is None:
                res = None
        return res
    if t.op == 'or':
        res = False
        for x in t.a[0]:
            r = truth(x, val)
            if r is True:
                return True
            if r is None:
                res = None
        return res
    if t.op == 'phi':
        c = truth(t.a[0], val)
        if c is None:
            a, b = truth(t.a[1], val), truth(t.a[2], val)
            return a if a == b else None
        return truth(t.a[1] if c else t.a[2], val)
    # an atomic condition: look it up as it stands; else resolve the phis inside its operands first and look again
    a0 = atom(t)
    if a0 is not None:
        v0 = val.get(a0[0])
        if v0 is not None:
            return v0 == a0[1]
    r = resolve(t, val)
    if r is not t:
        if r.op in ('k', 'not', 'and', 'or', 'phi'):
            return truth(r, val)
        t = r
    a = atom(t)
    if a is None:
        return None
    at, pol = a
    folded = _fold_atom(at)
    if folded is not None:
        return folded == pol
    v = val.get(at)
    if v is None:
        return None
    return v == pol


def _fold_atom(at):
    o = at.op
    if o == 'isnone':
        x = at.a[0]
        if x.op == 'k':
            return x.a[0] is None
        if x.op in ('dict', 'list', 'tuple', 'merge', 'set', 'fn', 'cls', 'comp', 'fstr', 'self'):
            return False
        return None
    if o == 'eq' and at.a[0].op == 'k' and at.a[1].op == 'k':
        return at.a[0].a[0] == at.a[1].a[0]
    if o == 'in' and at.a[0].op == 'k' and at.a[1].op == 'k' and isinstance(at.a[1].a[0], (tuple, frozenset, str)):
        try:
            return at.a[0].a[0] in at.a[1].a[0]
        except TypeError:
            return None
    if o == 'truthy':
        x = at.a[0]
        if x.op == 'k':
            return bool(x.a[0])
        # (an empty `[]` / `{}` display is NOT decided: the object may have been filled since — mutation is not tracked)
        if x.op in ('fn', 'cls'):
            return True
    if o == 'lt' and at.a[0].op == 'k' and at.a[1].op == 'k':
        try:
            return at.a[0].a[0] < at.a[1].a[0]
        except TypeError:
            return None
    return None


def resolve(t, val, memo=None):
    """the value a term denotes under `val`: substitution applied, phis with a decided condition replaced by the chosen side"""
    memo = val._memo.setdefault('resolve', {}) if memo is None else memo
    t = val.sub(t) if val.subst else t

    def go(x):
        if isinstance(x, tuple):
            return tuple(go(y) for y in x)
        if not isinstance(x, T):
            return x
        r = memo.get(id(x))
        if r is not None:
            return r
        if x.op == 'phi':
            c = truth(x.a[0], val)
            if c is True:
                r = go(x.a[1])
            elif c is False:
                r = go(x.a[2])
            else:
                r = PHI(go(x.a[0]), go(x.a[1]), go(x.a[2]))
        elif x.op == 'k':
            r = x
        else:
            r = mk(x.op, *[go(y) for y in x.a])
            if r.op == 'cmp':
                a = atom(r)
                if a is not None:
                    f = _fold_atom(a[0])
                    if f is not None:
                        r = K(f == a[1])
            elif r.op == 'not' and r.a[0].op == 'k':
                r = K(not r.a[0].a[0])
        memo[id(x)] = r
        return r
    return go(t)


def equivalent(x, y, limit=10):
    """truth-table equivalence of two conditions over their atoms (False when there are too many atoms)"""
    ats = atoms(x, y)
    if len(ats) > limit:
        return False
    for val in cases(ats):
        tx, ty = truth(x, val), truth(y, val)
        if tx is None or ty is None or tx is not ty:
            return False
    return True


def own_conditions(raises):
    """For raise events in evaluation order: the condition of each raise itself — its path condition minus the conjuncts that
    merely say "an earlier raise did not happen" (the fall-through of `if c: raise`).  → [(event, [own conjuncts])]"""
    out, earlier = [], []
    for ev in raises:
        own = [c for c in ev.pc if not any(equivalent(c, NOT(g)) for g in earlier)]
        out.append((ev, own))
        earlier.append(AND(list(ev.pc)))
        if own:
            earlier.append(AND(own))
    return out


def cases(atom_list, decide=None, subst=None):
    """every total valuation of the given atoms"""
    for bits in itertools.product([True, False], repeat=len(atom_list)):
        v = Val(subst=subst, decide=decide)
        for a, b in zip(atom_list, bits):
            v.set(a, b)
        yield v


def layers(t):
    """a mapping value as the list of its layers, later overriding earlier (`{**a, **b}`, `a | b`, `dict(a, **b)`,
    `d = a; d.update(b)`); empty literal layers are dropped"""
    if t.op == 'merge':
        return layers(t.a[0]) + layers(t.a[1])
    if t.op == 'dict' and not t.a[0]:
        return []
    return [t]
