"""replicat_facts.py — the questions the extractor plug-ins 05_snapqueue / 06_access / 14_format / 15_c04_session ask about replicat,
answered on the control-flow paths enumerated by `symflow` (terms over HASH / ENC / DEC / MAC / SUBKEY / HEX / FROMHEX / SER / DESER /
BACKEND / ENCRYPTED; locals, private helpers, branch orientation and statement spelling are gone at that level).

Only PUBLIC names are relied upon: the classes `Repository` / `RepositoryProps`, the public commands (`init`, `unlock`, `add_key`,
`snapshot`, `restore`), the documented hooks (`get_*_location`, `parse_*_location`, `serialize`, `deserialize`, `restore_metadata`), the
fields and methods of `RepositoryProps`, the adapter API (`encrypt`, `decrypt`, `digest`, `mac`, `derive`), the backend API and the
keys of the on-disk formats.  The code of a command is FOUND by what it does (the function that calls `backend.download_stream`, the
function that puts a record on a queue, …) inside the functions reachable from the public command, not by the name of a helper.

Every analysis returns a dict of facts plus `why` (a note for the evidence when something is not as expected); an analysis that
cannot make sense of the code says so and all its facts are false / None — never a guessed `true`.
"""
import ast

import symflow_fmt as sf
from symflow_fmt import I, Budget, Unsupported, contains, enc_polarity, mac_depth, show, strip_views, subst, subterms, unfresh

HOLE = I(('HOLE',))
BENIGN = {'len', 'isinstance', 'type', 'id', 'repr', 'str', 'print', 'format', 'hash', 'bool', 'min', 'max', 'sum'}
SRC_METHODS = ('getvalue', 'getbuffer', 'read', 'read1', 'readall')


def P(name):
    return I(('p', name))


def C(v):
    return I(('c', v))


def _params(fn):
    a = fn.args
    return [x.arg for x in a.posonlyargs + a.args + a.kwonlyargs]


def repo_class(an):
    return an.mods['repository'].classes.get('Repository')


def scope_functions(an, cinfo, *method_names):
    """functions that may hold the code of a command: the methods named, every function nested in them, and every method of the class
    they reference through `<self>.<name>` (transitively)"""
    selfnames = {m.args.args[0].arg for m in cinfo.methods.values() if m.args.args} | {'self'}
    out, seen, todo = [], set(), [cinfo.methods[m] for m in method_names if m in cinfo.methods]
    while todo:
        fn = todo.pop(0)
        if id(fn) in seen:
            continue
        seen.add(id(fn))
        out.append(fn)
        for n in ast.walk(fn):
            if n is not fn and isinstance(n, (ast.FunctionDef, ast.AsyncFunctionDef)):
                todo.append(n)
            elif isinstance(n, ast.Attribute) and isinstance(n.value, ast.Name) and n.value.id in selfnames \
                    and n.attr in cinfo.methods and n.attr not in an.opaque:
                todo.append(cinfo.methods[n.attr])
    return out


def roots_with(an, fns, pred, gen_ok=False):
    """the functions among fns that, run as a root, have a path with an event satisfying pred — minus those that another such function
    inlines (the outermost holder of the behaviour is the one to analyse)"""
    kept = []
    for fn in fns:
        if not gen_ok and sf._is_generator(fn):
            continue
        try:
            ps = an.paths(fn)
        except (Unsupported, Budget):
            continue
        if any(pred(e) for p in ps for e in p.events):
            kept.append((fn, ps))
    entered = {e[1] for _, ps in kept for p in ps for e in p.events if e[0] == 'inl'}
    return [(fn, ps) for fn, ps in kept if id(fn) not in entered]


def is_backend(e, op):
    return e[0] == 'CALL' and unfresh(e[1])[0] == 'BACKEND' and unfresh(e[1])[1] == op


def call_args(c):
    """positional + keyword argument terms of a call-like term"""
    c = unfresh(c)
    if c[0] in ('call', 'BACKEND'):
        return list(c[2]) + [v for _, v in c[3]]
    return []


def is_benign_call(c):
    c = unfresh(c)
    if c[0] != 'call':
        return c[0] != 'BACKEND'
    f = c[1]
    if f[0] == 'g':
        n = f[1]
        return n in BENIGN or n.startswith(('logger.', 'logging.', 'warnings.'))
    return False


def eq_guards(events, upto):
    """[(a, b)] for every comparison a == b the path has passed with outcome TRUE before event index upto"""
    out = []
    for e in events[:upto]:
        if e[0] == 'cond' and e[2] is True and e[1][0] == 'cmp' and e[1][1] == '==':
            out.append((e[1][2], e[1][3]))
    return out


def hash_guarded(events, upto, value, expected=None):
    """the expected digests X for which `HASH(<view of value>) == X` has been established before event index upto"""
    out = []
    for a, b in eq_guards(events, upto):
        for h, x in ((a, b), (b, a)):
            if h[0] == 'HASH' and strip_views(h[1]) == value and (expected is None or x == expected):
                out.append(x)
    return out


def chunk_location_parts(loc):
    """`<self>.get_chunk_location(name=HEX(n), tag=HEX(t))` → (n, t)"""
    return _location_parts(loc, 'get_chunk_location')


def _location_parts(loc, meth):
    if loc[0] == 'call' and loc[1][0] == 'attr' and loc[1][2] == meth and not loc[2]:
        kw = dict(loc[3])
        if set(kw) == {'name', 'tag'} and kw['name'][0] == 'HEX' and kw['tag'][0] == 'HEX':
            return kw['name'][1], kw['tag'][1]
    return None


# =================================================================================================== restore: the chunk loader
def chunk_loader(an):
    """the function of `restore` that downloads a chunk (`backend.download_stream`) and hands its bytes on.

    sources  = what is read back from the object the backend wrote into (`<stream arg>.getvalue()` …) or `backend.download(…)`;
    hand-over = any call outside logging / len / the crypto primitives that receives (a view / slice of) bytes derived from a source, and
                any store of such bytes into an attribute / container / the return value;
    guard    = the path has passed `HASH(<the very bytes handed over, before views>) == <the digest the location was derived from>`.
    """
    r = dict(found=False, why='', verified=False, dominates=False, key_from_digest=False, loc={}, param=None)
    R = repo_class(an)
    if R is None or 'restore' not in R.methods:
        r['why'] = 'Repository.restore not found'
        return r
    cands = roots_with(an, scope_functions(an, R, 'restore'), lambda e: is_backend(e, 'download_stream'))
    if len(cands) != 1:
        r['why'] = f'{len(cands)} functions under Repository.restore call backend.download_stream (one expected)'
        return r
    fn, paths = cands[0]
    r['found'] = True
    params = _params(fn)
    digest_param = None
    sinks_total = guarded_total = 0
    key_ok = True
    seen_pol = set()
    problems = []
    for p in paths:
        ev = p.events
        idx = next((i for i, e in enumerate(ev) if is_backend(e, 'download_stream')), None)
        if idx is None:
            # no download on this path: nothing of the object can be handed over
            continue
        dl = unfresh(ev[idx][1])
        if not dl[2]:
            r['why'] = 'download_stream called without a location argument'
            return r
        loc = dl[2][0]
        ps_ = [q for q in params if contains(loc, P(q))]
        if len(ps_) != 1 or (digest_param is not None and ps_[0] != digest_param):
            r['why'] = f'the download location is not a function of exactly one parameter of {fn.name} ({ps_})'
            return r
        digest_param = ps_[0]
        D = P(digest_param)
        pol = enc_polarity(p)
        if pol is not None:
            r['loc'].setdefault(pol, set()).add(subst(loc, D, HOLE))
        streams = set()
        for a in call_args(dl)[1:]:
            streams.update(id(x) for x in subterms(a))

        def is_source(t):
            t = unfresh(t)
            if t[0] == 'BACKEND' and t[1] == 'download':
                return True
            return t[0] == 'call' and t[1][0] == 'attr' and t[1][2] in SRC_METHODS and id(t[1][1]) in streams

        memo = {}
        consumed = set()      # calls that already received the bytes (judged below): their RESULT is a new value, not the bytes

        def tainted(t):
            k = id(t)
            if k not in memo:
                if not isinstance(t, tuple) or not t or k in consumed:
                    memo[k] = False
                elif is_source(t):
                    memo[k] = True
                else:
                    memo[k] = any(tainted(x) for x in t if isinstance(x, tuple))
            return memo[k]

        # decryption keys of everything derived from the download
        for e in ev[idx:]:
            for t in e[1:]:
                if isinstance(t, tuple):
                    for x in subterms(t):
                        if x[0] == 'DEC' and tainted(x[1]) and x[2] != I(('SUBKEY', D)):
                            key_ok = False
                            problems.append('a downloaded chunk is decrypted under ' + show(x[2])[:80])
        for i in range(idx + 1, len(ev)):
            e = ev[i]
            handed = []
            if e[0] == 'CALL' and unfresh(e[1])[0] in ('call', 'BACKEND') and not is_benign_call(e[1]):
                handed = [a for a in call_args(e[1]) if tainted(a)]
            elif e[0] in ('setattr', 'setitem', 'augattr', 'augitem', 'yield', 'ret'):
                handed = [a for a in e[1:] if isinstance(a, tuple) and e[0] in ('yield', 'ret', 'setattr', 'setitem') and tainted(a)]
                if e[0] in ('setattr', 'setitem'):
                    handed = [a for a in (e[-1],) if tainted(a)]
            if handed and e[0] == 'CALL':
                consumed.add(id(e[1]))
                memo.clear()
            for a in handed:
                sinks_total += 1
                v = strip_views(a)
                if hash_guarded(ev, i, v, D):
                    guarded_total += 1
                else:
                    problems.append(f'{show(a)[:60]} reaches {show(e[1])[:60] if e[0] == "CALL" else e[0]} without HASH(..) == {digest_param}')
                # what is handed over: the download itself (plain repository) or its decryption under the digest's sub-key
                seen_pol.add(pol)
                if pol is True:
                    if not (v[0] == 'DEC' and v[2] == I(('SUBKEY', D)) and is_source(strip_views(v[1]))):
                        key_ok = False
                        problems.append('encrypted repository: what is written is not DEC(download, SUBKEY(digest))')
                elif pol is False:
                    if not is_source(v):
                        key_ok = False
                        problems.append('plain repository: what is written is not the downloaded object')
                else:
                    key_ok = False
                    problems.append('a chunk is written on a path that never asked whether the repository is encrypted')
    r['param'] = digest_param
    r['verified'] = guarded_total > 0
    r['dominates'] = sinks_total > 0 and guarded_total == sinks_total
    r['key_from_digest'] = key_ok and seen_pol == {True, False}
    if sinks_total == 0:
        problems.append('no hand-over of downloaded bytes found')
    r['why'] = '; '.join(dict.fromkeys(problems))[:400]
    return r


# =================================================================================================== snapshot: producer and workers
def _is_put(e):
    if e[0] != 'CALL' or e[1][0] != 'call':
        return False
    f = e[1][1]
    return f[0] == 'attr' and f[2] in ('put', 'put_nowait') and len(e[1][2]) >= 1 and e[1][2][0][0] == 'new'


def _is_chunk(t):
    """an element of `<props>.chunkify(…)` / `<props>.chunker(…)`"""
    return t[0] == 'elem' and any(x[0] == 'call' and x[1][0] == 'attr' and x[1][2] in ('chunker', 'chunkify') for x in subterms(t[1]))


def snapshot_queue(an):
    """the producer (puts one record per chunk of `props.chunkify(…)` on a queue) and the worker (uploads through `backend.upload_stream`)
    of `Repository.snapshot`.  The payload field of the record is the one that holds a chunk or its encryption, the location field the
    one that holds a `get_chunk_location(…)`; the worker must upload exactly these two fields of a record it took from a queue."""
    r = dict(found=False, why='', upload_is_queued=False, queued_is_ciphertext=False, write_key_from_digest=False,
             name_depth=None, tag_depth=None, plain_name_is_digest=False, loc={})
    R = repo_class(an)
    if R is None or 'snapshot' not in R.methods:
        r['why'] = 'Repository.snapshot not found'
        return r
    fns = scope_functions(an, R, 'snapshot')
    problems = []
    # ---------------------------------------------------------------- the worker
    workers = roots_with(an, fns, lambda e: is_backend(e, 'upload_stream'))
    fields = set()
    up_ok, n_up = len(workers) == 1, 0
    if not up_ok:
        problems.append(f'{len(workers)} functions under Repository.snapshot call backend.upload_stream (one expected)')
    for p in (workers[0][1] if up_ok else []):
        ev = p.events
        if any(is_backend(e, 'upload') for e in ev):
            up_ok = False
            problems.append('the worker also calls backend.upload')
        for i, e in enumerate(ev):
            if not is_backend(e, 'upload_stream'):
                continue
            n_up += 1
            a = unfresh(e[1])[2]
            if len(a) < 2:
                up_ok = False
                continue
            loc, stream = a[0], a[1]
            bios = [x for x in subterms(stream) if x[0] == 'call' and x[1] == I(('g', 'io.BytesIO')) and len(x[2]) == 1]
            src = strip_views(bios[0][2][0]) if len(bios) == 1 else None
            if src is None or src[0] != 'attr' or loc[0] != 'attr' or src[1] != loc[1]:
                up_ok = False
                problems.append('upload_stream(location, stream): not `<record>.<location field>`, a stream over `<record>.<payload field>`')
                continue
            rec = unfresh(loc[1])
            if not (rec[0] == 'call' and rec[1][0] == 'attr' and rec[1][2] in ('get', 'get_nowait')):
                up_ok = False
                problems.append('the uploaded record is not taken from a queue')
                continue
            fields.add((src[2], loc[2]))
            ex = I(('BACKEND', 'exists', (loc,), ()))
            if not any(c[0] == 'cond' and c[1] == ex and c[2] is False for c in ev[:i]):
                up_ok = False
                problems.append('an upload is reachable without `exists(<record location>)` having answered false')
    # ---------------------------------------------------------------- the producer
    producers = roots_with(an, fns, _is_put)
    if len(producers) != 1:
        r['why'] = '; '.join(problems + [f'{len(producers)} functions under Repository.snapshot put a record on a queue (one expected)'])[:400]
        return r
    r['found'] = True
    pfn, ppaths = producers[0]
    rec_fields = set()
    queued_ok = key_ok = True
    pols = set()
    depths = set()
    plain_ok = True
    for p in ppaths:
        ev = p.events
        for i, e in enumerate(ev):
            if not _is_put(e):
                continue
            rec = dict(e[1][2][0][2])
            pf = [k for k, v in rec.items() if _is_chunk(v) or (v[0] == 'ENC' and _is_chunk(v[1]))]
            lf = [k for k, v in rec.items() if chunk_location_parts(v) is not None]
            if len(pf) != 1 or len(lf) != 1:
                r['found'] = False
                r['why'] = 'the queued record does not have one payload field (a chunk / its encryption) and one chunk location field'
                return r
            rec_fields.add((pf[0], lf[0]))
            c, loc = rec[pf[0]], rec[lf[0]]
            enc = c[0] == 'ENC'
            chunk = c[1] if enc else c
            pol = enc_polarity(ev[:i])
            pols.add(pol)
            if pol is None:
                queued_ok = key_ok = False
                problems.append('a chunk is queued on a path that never asked whether the repository is encrypted')
                continue
            if pol != enc:
                queued_ok = False
                problems.append('encrypted repository: a chunk is queued in plaintext' if pol else 'plain repository: a chunk is queued encrypted')
            dg = I(('HASH', chunk))
            if pol and enc and c[2] != I(('SUBKEY', dg)):
                key_ok = False
                problems.append('chunk encryption key is ' + show(c[2])[:80] + ', not SUBKEY(HASH(chunk))')
            parts = chunk_location_parts(loc)
            nd, td = mac_depth(parts[0], dg), mac_depth(parts[1], dg)
            r['loc'].setdefault(pol, set()).add(subst(loc, dg, HOLE))
            if pol:
                depths.add((nd, td))
                if nd is None or td is None:
                    key_ok = False
                    problems.append('chunk name / tag are not MAC^k(HASH(chunk))')
            elif (nd, td) != (0, 0):
                plain_ok = key_ok = False
                problems.append('plain repository: chunk name / tag are not the digest')
    if len(rec_fields) != 1 or rec_fields != fields:
        up_ok = False
        problems.append('the worker does not upload the payload field of the queued record at its location field')
    r['upload_is_queued'] = up_ok and n_up > 0
    r['queued_is_ciphertext'] = queued_ok and pols == {True, False}
    r['write_key_from_digest'] = key_ok and pols == {True, False}
    r['plain_name_is_digest'] = plain_ok and False in pols
    if len(depths) == 1 and None not in next(iter(depths)):
        r['name_depth'], r['tag_depth'] = next(iter(depths))
    r['why'] = '; '.join(dict.fromkeys(problems))[:400]
    return r


# =================================================================================================== snapshot: the object that is uploaded
def _dict_items(t):
    if t[0] == 'dict' and all(k[0] == 'c' for k, _ in t[1]):
        return {k[1]: v for k, v in t[1]}
    return None


def snapshot_upload(an):
    """`Repository.snapshot` run as a whole: the `backend.upload(location, data)` of the snapshot object"""
    r = dict(found=False, why='', stored_under_own_digest=False, name_is_digest=False, tag_depth=None, plain_tag_is_digest=False, body_scheme=False)
    R = repo_class(an)
    try:
        paths = an.paths(R.methods['snapshot'])
    except (KeyError, AttributeError, Unsupported, Budget) as e:
        r['why'] = f'Repository.snapshot could not be analysed ({e!r})'
        return r
    ups = [(p, i) for p in paths for i, e in enumerate(p.events) if is_backend(e, 'upload')]
    if not ups:
        r['why'] = 'no backend.upload in Repository.snapshot'
        return r
    r['found'] = True
    own = name_ok = plain_tag = body = True
    depths, pols = set(), set()
    plain_pairs, enc_pairs = set(), set()
    problems = []
    for p, i in ups:
        a = unfresh(p.events[i][1])[2]
        if len(a) != 2:
            own = name_ok = body = False
            continue
        loc, data = a
        pol = enc_polarity(p.events[:i])
        pols.add(pol)
        dg = I(('HASH', data))
        parts = _location_parts(loc, 'get_snapshot_location')
        if parts is None or pol is None:
            own = name_ok = plain_tag = body = False
            depths.add(None)
            problems.append('snapshot location is not get_snapshot_location(name=<hex>, tag=<hex>) / encryption never tested')
            continue
        nd, td = mac_depth(parts[0], dg), mac_depth(parts[1], dg)
        if nd is None or td is None:
            own = False
            problems.append('snapshot name / tag are not derived from HASH(<uploaded bytes>)')
        if nd != 0:
            name_ok = False
        if pol:
            depths.add(td)
        elif td != 0:
            plain_tag = False
        # body layout
        if data[0] != 'SER':
            body = False
            problems.append('uploaded snapshot is not serialize(…)')
            continue
        items = _dict_items(data[1])
        if items is None or set(items) != {'chunks', 'data'}:
            body = False
            problems.append('snapshot body is not {chunks, data}')
            continue
        if pol:
            epd, ech = items['data'], items['chunks']
            props = next((c[1][1] for c in p.events[:i] if c[0] == 'cond' and sf.is_enc(c[1])), None)
            ok = (epd[0] == 'ENC' and epd[1][0] == 'SER' and epd[2] == I(('attr', props, 'userkey'))
                  and ech[0] == 'ENC' and ech[1][0] == 'SER' and ech[2] == I(('SUBKEY', ('HASH', epd))))
            if not ok:
                body = False
                problems.append('encrypted body is not {chunks: ENC(SER(table), SUBKEY(HASH(enc data))), data: ENC(SER(data), userkey)}')
            else:
                enc_pairs.add((ech[1][1], epd[1][1]))
        else:
            plain_pairs.add((items['chunks'], items['data']))
    if pols != {True, False}:
        own = name_ok = plain_tag = body = False
        problems.append('snapshot upload not found for both an encrypted and a plain repository')
    if enc_pairs != plain_pairs or any(any(x[0] in ('ENC', 'DEC') for x in subterms(t)) for pr in plain_pairs for t in pr):
        body = False
        problems.append('the encrypted and the plain body do not carry the same table / data')
    r.update(stored_under_own_digest=own, name_is_digest=name_ok and own, plain_tag_is_digest=plain_tag and own, body_scheme=body)
    if len(depths) == 1 and None not in depths:
        r['tag_depth'] = next(iter(depths))
    r['why'] = '; '.join(dict.fromkeys(problems))[:400]
    return r


# =================================================================================================== loading snapshots
def _key_lookup(t, key):
    """value stored under the constant key in a (functionally updated) mapping term, or ('sub', t, key)"""
    k = C(key)
    while True:
        if t[0] == 'upd':
            if t[2] == k:
                return t[3]
            if t[2][0] == 'c':
                t = t[1]
                continue
            return None
        if t[0] == 'dict':
            d = _dict_items(t)
            return d.get(key) if d is not None else None
        return I(('sub', t, k))


def snapshot_loader(an):
    """the function that, given the location of a snapshot object, downloads it (`backend.download(<its parameter>)`) and deserialises it.

    tag check     : in an encrypted repository nothing is downloaded / read / deserialised before MAC(FROMHEX(name)) == FROMHEX(tag) held,
                    name / tag = the two components of `parse_snapshot_location(<location>)`;
    digest check  : the downloaded bytes are only deserialised / decrypted after HASH(bytes) == X held; X must be FROMHEX(name);
    body          : chunks = DESER(DEC(body.chunks, SUBKEY(HASH(body.data)))), data = DESER(DEC(body.data, userkey)) or None when that
                    decryption raises DecryptionError (inside a try that covers it)."""
    r = dict(found=False, why='', tag_checked=False, digest_verified=False, expected_is_name=False, body_read=False, foreign_tolerated=False)
    R = repo_class(an)
    if R is None:
        r['why'] = 'Repository not found'
        return r
    fns = [fn for fn in sf.functions_in(R.node) if _mentions(fn, R, ('download',)) and _mentions(fn, R, ('deserialize',))]

    def loads(fn):
        ps_ = set(_params(fn))

        def pred(e):
            return is_backend(e, 'download') and len(unfresh(e[1])[2]) == 1 and unfresh(e[1])[2][0][0] == 'p' and unfresh(e[1])[2][0][1] in ps_
        return pred

    cands = []
    for fn in fns:
        for c in roots_with(an, [fn], loads(fn), gen_ok=True):
            if any(e[0] == 'CALL' and e[1][0] == 'DESER' for p in c[1] for e in p.events):
                cands.append(c)
    entered = {e[1] for _, ps in cands for p in ps for e in p.events if e[0] == 'inl'}
    cands = [c for c in cands if id(c[0]) not in entered]
    if len(cands) != 1:
        r['why'] = f'{len(cands)} functions download an object at their parameter and deserialise it (one expected)'
        return r
    fn, paths = cands[0]
    r['found'] = True
    tag_ok = dig_ok = name_ok = body_ok = True
    n_use = n_sink = 0
    pols = set()
    problems = []
    tolerated = []
    try_covers = set()
    for p in paths:
        ev = p.events
        dls = [unfresh(e[1]) for e in ev if is_backend(e, 'download')]
        q = dls[0][2][0] if dls else None
        # first use of the object (or of a cached copy of it)
        first = next((i for i, e in enumerate(ev) if is_backend(e, 'download') or (e[0] == 'CALL' and e[1][0] in ('DESER', 'DEC'))), None)
        if first is None:
            continue
        n_use += 1
        if q is None:
            qs = [P(x) for x in _params(fn)]
        else:
            qs = [q]
        pol = enc_polarity(ev[:first])
        pols.add(pol)
        parses = [x for e in ev[:first] for t in e[1:] if isinstance(t, tuple) for x in subterms(t)
                  if x[0] == 'call' and x[1][0] == 'attr' and x[1][2] == 'parse_snapshot_location' and len(x[2]) == 1 and x[2][0] in qs]
        names = {I(('sub', x, C(0))) for x in parses} | {I(('attr', x, 'name')) for x in parses}
        tags = {I(('sub', x, C(1))) for x in parses} | {I(('attr', x, 'tag')) for x in parses}
        if pol is None:
            tag_ok = False
            problems.append('a snapshot is loaded on a path that never asked whether the repository is encrypted')
        elif pol:
            good = False
            for a, b in eq_guards(ev, first):
                for m, t in ((a, b), (b, a)):
                    if m[0] == 'MAC' and m[1][0] == 'FROMHEX' and m[1][1] in names and t[0] == 'FROMHEX' and t[1] in tags:
                        good = True
            if not good:
                tag_ok = False
                problems.append('encrypted repository: a snapshot is fetched without MAC(FROMHEX(name)) == FROMHEX(tag)')
        # digest of what was downloaded
        for i, e in enumerate(ev):
            if e[0] == 'CALL' and e[1][0] in ('DESER', 'DEC'):
                v = strip_views(e[1][1])
                if unfresh(v)[0] == 'BACKEND' and unfresh(v)[1] == 'download':
                    n_sink += 1
                    xs = hash_guarded(ev, i, v)
                    if not xs:
                        dig_ok = False
                        problems.append('a downloaded snapshot is parsed without HASH(bytes) == <expected digest>')
                    elif not all(x[0] == 'FROMHEX' and x[1] in names for x in xs):
                        name_ok = False
                        problems.append('the expected digest is ' + show(xs[0])[:60] + ', not FROMHEX(name)')
        # body
        if p.kind != 'return' or p.value == sf.NONE or p.value is None:
            continue
        first_deser = next((e[1] for e in ev if e[0] == 'CALL' and e[1][0] == 'DESER'), None)
        if first_deser is None:
            continue
        b0 = first_deser
        props = next((c[1][1] for c in ev if c[0] == 'cond' and sf.is_enc(c[1])), None)
        full_pol = enc_polarity(p)
        if full_pol is False:
            if p.value != b0:
                body_ok = False
                problems.append('plain repository: the loaded body is not DESER(<object>)')
            continue
        if full_pol is None:
            body_ok = False
            continue
        want_ch = I(('DESER', ('DEC', ('sub', b0, C('chunks')), ('SUBKEY', ('HASH', ('sub', b0, C('data')))))))
        dec_data = I(('DEC', ('sub', b0, C('data')), ('attr', props, 'userkey')))
        want_dt = I(('DESER', dec_data))
        ch, dt = _key_lookup(p.value, 'chunks'), _key_lookup(p.value, 'data')
        decs = {x for e in ev for t in e[1:] if isinstance(t, tuple) for x in subterms(t) if x[0] == 'DEC'}
        if ch != want_ch or dt not in (want_dt, sf.NONE) or not decs <= {want_ch[1], dec_data}:
            body_ok = False
            problems.append('encrypted body is not read as chunks=DEC(.., SUBKEY(HASH(data))) / data=DEC(.., userkey)')
            continue
        for i, e in enumerate(ev):
            if e[0] == 'CALL' and e[1] == dec_data:
                open_tries = []
                for x in ev[:i]:
                    if x[0] == 'try':
                        open_tries.append(x[1])
                    elif x[0] == 'endtry' and x[1] in open_tries:
                        open_tries.remove(x[1])
                try_covers.update(open_tries)
        if dt == sf.NONE:
            exc = [e for e in ev if e[0] == 'except' and e[2][0] == 'g' and e[2][1].split('.')[-1] == 'DecryptionError']
            tolerated.extend(e[1] for e in exc)
    if n_use == 0 or pols != {True, False}:
        tag_ok = False
    if n_sink == 0:
        dig_ok = name_ok = False
    r.update(tag_checked=tag_ok, digest_verified=dig_ok, expected_is_name=dig_ok and name_ok, body_read=body_ok and n_sink > 0,
             foreign_tolerated=body_ok and any(t in try_covers for t in tolerated))
    r['why'] = '; '.join(dict.fromkeys(problems))[:400]
    return r


def _mentions(fn, cinfo, words, _seen=None):
    """fn, or a method of the class / nested function it references (transitively), has an attribute access whose name is in words"""
    seen = set() if _seen is None else _seen
    if id(fn) in seen:
        return False
    seen.add(id(fn))
    for n in ast.walk(fn):
        if isinstance(n, ast.Attribute):
            if n.attr in words:
                return True
            if isinstance(n.value, ast.Name) and n.attr in cinfo.methods and n.attr not in words and _mentions(cinfo.methods[n.attr], cinfo, words, seen):
                return True
    return False


# =================================================================================================== key files (init / add_key / unlock)
_KD = {}


def _key_dicts(t):
    """dict literals that look like a key file (have `kdf_params` and `private`); memoised (terms are interned and shared by the paths)"""
    t = I(t)
    out = _KD.get(t)
    if out is None:
        out = _KD[t] = []
        for x in subterms(t):
            if x[0] == 'dict':
                d = _dict_items(x)
                if d is not None and 'kdf_params' in d and 'private' in d:
                    out.append(d)
    return out


def _derive_shape(uk, password, kdf, kdf_params):
    """uk = <KDF built from the key's `kdf` section>.derive(<password>, params=<the key's kdf_params>)"""
    if not (uk[0] == 'call' and uk[1][0] == 'attr' and uk[1][2] == 'derive' and tuple(uk[2]) == (password,)):
        return False
    kw = dict(uk[3])
    return set(kw) == {'params'} and kw['params'] == kdf_params and contains(uk[1][1], kdf)


def key_files(an):
    r = dict(why='', private_encrypted_before_emit=False, config_upload_only=False, userkey_is_kdf=False, private_sealed=False, private_keys=[])
    R = repo_class(an)
    problems = []
    pw = P('password')
    # ---- init / add_key: every key that leaves the function has its private section sealed under KDF(password)
    sealed_ok = True
    n_emit = {'init': 0, 'add_key': 0}
    priv_lists = set()
    cfg_ok, n_cfg = True, 0
    for meth in ('init', 'add_key'):
        try:
            paths = an.paths(R.methods[meth])
        except (KeyError, AttributeError, Unsupported, Budget) as e:
            problems.append(f'Repository.{meth} could not be analysed ({e!r})')
            sealed_ok = cfg_ok = False
            continue
        for p in paths:
            if p.kind != 'return':
                continue
            ups = 0
            for e in p.events:
                if e[0] not in ('CALL', 'ret', 'setattr', 'setitem'):
                    continue
                # the logging of the still unencrypted private section is a debug statement that exists in replicat; the facts
                # here are about what is written / printed / returned / uploaded
                if e[0] == 'CALL' and e[1][0] == 'call' and e[1][1][0] == 'g' and e[1][1][1].startswith(('logger.', 'logging.')):
                    continue
                for t in (e[-1:] if e[0] in ('setattr', 'setitem') else e[1:]):
                    if not isinstance(t, tuple):
                        continue
                    for d in _key_dicts(t):
                        n_emit[meth] += 1
                        pv = d['private']
                        if not (pv[0] == 'ENC' and pv[1][0] == 'SER' and _derive_shape(pv[2], pw, d.get('kdf', HOLE), d['kdf_params'])):
                            sealed_ok = False
                            problems.append(f'{meth}: a key leaves with private section {show(pv)[:70]}')
                        elif meth == 'init':
                            inner = _dict_items(pv[1][1]) if pv[1][1][0] == 'dict' else None
                            priv_lists.add(tuple(k for k, _ in pv[1][1][1]) if inner is not None else None)
                if meth == 'init' and is_backend(e, 'upload'):
                    ups += 1
                    a = unfresh(e[1])[2]
                    bad = len(a) != 2 or a[0] != C('config') or a[1][0] != 'SER' or any(
                        x == pw or x[0] in ('fresh', 'ENC', 'DEC') or (x[0] == 'call' and x[1][0] == 'attr' and x[1][2] == 'derive') for x in subterms(a[1]))
                    if bad:
                        cfg_ok = False
                        problems.append('init uploads something else than serialize(<config without key material>) at `config`')
            if meth == 'init':
                n_cfg += 1
                if ups != 1:
                    cfg_ok = False
                    problems.append(f'init completes with {ups} uploads')
    r['private_encrypted_before_emit'] = sealed_ok and n_emit['init'] > 0 and n_emit['add_key'] > 0
    r['config_upload_only'] = cfg_ok and n_cfg > 0
    if len(priv_lists) == 1 and None not in priv_lists:
        r['private_keys'] = [k[1] for k in next(iter(priv_lists))]
    else:
        problems.append('private section of a new key is not one dict literal')
    # ---- unlock: the user key and the private section that end up in self.props
    uk_ok = seal_ok = True
    n_set = 0
    try:
        paths = an.paths(R.methods['unlock'])
    except (KeyError, AttributeError, Unsupported, Budget) as e:
        problems.append(f'Repository.unlock could not be analysed ({e!r})')
        paths, uk_ok, seal_ok = [], False, False
    for p in paths:
        if p.kind != 'return':
            continue
        sets = [e for e in p.events if e[0] == 'setattr' and e[2] == 'props']
        if len(sets) != 1:
            uk_ok = seal_ok = False
            problems.append('unlock completes without setting self.props exactly once')
            continue
        if sets[0][3][0] != 'replace':
            # plain repository (no key material involved): the props built from the config alone
            if any(x == pw for x in subterms(sets[0][3])):
                uk_ok = seal_ok = False
            continue
        n_set += 1
        d = dict(sets[0][3][2])
        uk, pv = d.get('userkey'), d.get('private')
        keys = [I(('p', 'key')), I(('DESER', ('p', 'key')))]
        key = next((k for k in keys if uk is not None and contains(uk, I(('sub', k, C('kdf_params'))))), None)
        if uk is None or key is None or not _derive_shape(uk, pw, I(('sub', key, C('kdf'))), I(('sub', key, C('kdf_params')))):
            uk_ok = seal_ok = False
            problems.append('unlock: userkey is not KDF(key.kdf).derive(password, params=key.kdf_params)')
            continue
        kp = I(('sub', key, C('private')))
        isb = [c[2] for c in p.events if c[0] == 'cond' and c[1][0] == 'call' and c[1][1] == I(('g', 'isinstance')) and c[1][2] and c[1][2][0] == kp]
        if isb == [True]:
            if pv != I(('DESER', ('DEC', kp, uk))):
                seal_ok = False
                problems.append('unlock: an encrypted private section is not DESER(DEC(key.private, userkey))')
        elif isb == [False]:
            if pv != kp:
                seal_ok = False
        else:
            seal_ok = False
            problems.append('unlock: private section used without asking whether it is still encrypted')
    r['userkey_is_kdf'] = uk_ok and n_set > 0
    r['private_sealed'] = seal_ok and uk_ok and n_set > 0
    r['why'] = '; '.join(dict.fromkeys(problems))[:400]
    return r


# =================================================================================================== adapters / props primitives
def aead_nonce(an):
    """every concrete `encrypt(self, data, key)` of replicat/utils/adapters.py returns <fresh random nonce> + <cipher>.encrypt(<that nonce>, data, …)"""
    r = dict(why='', nonce_fresh=False)
    n = 0
    ok = True
    for c in an.mods['adapters'].classes.values():
        fn = c.methods.get('encrypt')
        if fn is None or any(ast.unparse(d).split('.')[-1] == 'abstractmethod' for d in fn.decorator_list):
            continue
        try:
            paths = an.paths(fn)
        except (Unsupported, Budget) as e:
            ok = False
            r['why'] = f'{c.name}.encrypt could not be analysed ({e!r})'
            continue
        rets = [p for p in paths if p.kind == 'return' and p.value != sf.NONE]
        if not rets:
            continue    # abstract
        ps_ = _params(fn)
        for p in rets:
            n += 1
            v = strip_views(p.value)
            parts = None
            if v[0] == 'bin' and v[1] == 'Add':
                parts = (v[2], v[3])
            elif v[0] == 'call' and v[1][0] == 'attr' and v[1][2] == 'join' and len(v[2]) == 1 and v[2][0][0] in ('tuple', 'list') and len(v[2][0][1]) == 2:
                parts = tuple(v[2][0][1])
            good = False
            if parts is not None:
                nonce, ct = strip_views(parts[0]), strip_views(parts[1])
                fresh = nonce[0] == 'fresh' and nonce[2][0] == 'call' and nonce[2][1][0] == 'g' and nonce[2][1][1] in ('os.urandom', 'secrets.token_bytes')
                good = (fresh and ct[0] == 'call' and ct[1][0] == 'attr' and ct[1][2] == 'encrypt' and len(ct[2]) >= 2
                        and strip_views(ct[2][0]) == nonce and len(ps_) >= 3 and ct[2][1] == P(ps_[1]) and contains(ct[1][1], P(ps_[2])))
            if not good:
                ok = False
                r['why'] = f'{c.name}.encrypt returns {show(v)[:100]}'
    r['nonce_fresh'] = ok and n > 0
    return r


def props_primitives(an):
    r = dict(why='', subkey_scheme=False, mac_scheme=False)
    c = an.mods['repository'].classes.get('RepositoryProps')
    for meth, tag, key in (('derive_shared_subkey', 'SUBKEY', 'subkey_scheme'), ('mac', 'MAC', 'mac_scheme')):
        fn = c.methods.get(meth) if c else None
        if fn is None:
            continue
        try:
            paths = [p for p in an.paths(fn) if p.kind == 'return']
        except (Unsupported, Budget):
            continue
        ps_ = _params(fn)
        r[key] = bool(paths) and len(ps_) == 2 and all(p.value == I((tag, P(ps_[1]))) for p in paths)
    return r


# =================================================================================================== restore_metadata
def metadata_fallback(an):
    r = dict(why='', ns_keys=[], legacy_keys=[], fallback=False)
    R = repo_class(an)
    fn = R.methods.get('restore_metadata') if R else None
    if fn is None:
        r['why'] = 'restore_metadata not found'
        return r
    try:
        paths = [p for p in an.paths(fn) if p.kind == 'return']
    except (Unsupported, Budget) as e:
        r['why'] = repr(e)
        return r
    ps_ = _params(fn)
    if len(ps_) < 3:
        return r
    tgt, md = P(ps_[1]), P(ps_[2])

    def keys_of(t):
        if t[0] == 'tuple' and t[1] and all(x[0] == 'sub' and x[1] == md and x[2][0] == 'c' for x in t[1]):
            return tuple(x[2][1] for x in t[1])
        return None

    ns_paths, legacy_paths = [], []
    for p in paths:
        ut = [e[1] for e in p.events if e[0] == 'CALL' and e[1][0] == 'call' and e[1][1] == I(('g', 'os.utime'))]
        if len(ut) != 1 or not ut[0][2] or ut[0][2][0] != tgt:
            r['why'] = 'a path of restore_metadata does not call os.utime(path, …) exactly once'
            return r
        kw = dict(ut[0][3])
        if 'ns' in kw and len(ut[0][2]) == 1 and set(kw) == {'ns'}:
            ns_paths.append((p, keys_of(kw['ns'])))
        elif ('times' in kw and set(kw) == {'times'} and len(ut[0][2]) == 1) or (len(ut[0][2]) == 2 and not kw):
            legacy_paths.append((p, keys_of(kw['times'] if kw else ut[0][2][1])))
        else:
            r['why'] = 'os.utime call not recognised'
            return r
    nk = {k for _, k in ns_paths}
    lk = {k for _, k in legacy_paths}
    if len(nk) != 1 or len(lk) != 1 or None in nk or None in lk:
        r['why'] = 'ns / legacy timestamp keys not recognised'
        return r
    r['ns_keys'], r['legacy_keys'] = list(next(iter(nk))), list(next(iter(lk)))
    ok = True
    for p, keys in ns_paths:
        # the ns path is the one where every ns key was present: read inside a try that has a KeyError handler, or tested with `in`
        for k in keys:
            sub = I(('sub', md, C(k)))
            intry = False
            open_tries = []
            for e in p.events:
                if e[0] == 'try':
                    open_tries.append(e[1])
                elif e[0] == 'endtry' and e[1] in open_tries:
                    open_tries.remove(e[1])
                elif e[0] == 'load' and e[1] == sub and open_tries:
                    intry = set(open_tries)
            tested = any(c[0] == 'cond' and c[2] is True and c[1] == I(('cmp', 'in', C(k), md)) for c in p.events)
            handlers = {e[1] for q, _ in legacy_paths for e in q.events if e[0] == 'except' and e[2] == I(('g', 'KeyError'))}
            if not (tested or (intry and intry & handlers)):
                ok = False
    for q, _ in legacy_paths:
        by_exc = any(e[0] == 'except' and e[2] == I(('g', 'KeyError')) for e in q.events)
        by_test = any(c[0] == 'cond' and c[2] is False and c[1][0] == 'cmp' and c[1][1] == 'in' and c[1][3] == md for c in q.events)
        if not (by_exc or by_test):
            ok = False
    r['fallback'] = ok and bool(ns_paths) and bool(legacy_paths)
    if not r['fallback']:
        r['why'] = 'restore_metadata: the legacy timestamps are not used exactly when the ns keys are missing'
    return r


# =================================================================================================== JSON byte-string hints
def _hook_function(an, R, meth, lib_call, kwname):
    """the function that `serialize` / `deserialize` pass to json as default= / object_hook=, followed through the hook method to
    the function of replicat.utils that does the work → (paths, [param name]) or None"""
    fn = R.methods.get(meth)
    if fn is None:
        return None
    hooks = set()
    for p in an.paths(fn):
        for e in p.events:
            if e[0] == 'CALL' and e[1][0] == 'call' and e[1][1] == I(('g', lib_call)):
                hooks.add(dict(e[1][3]).get(kwname))
    if len(hooks) != 1 or None in hooks:
        return None
    f = next(iter(hooks))
    for _ in range(4):
        paths, names = an.apply_paths(f, 1, fn)
        if len(names) != 1:
            return None
        rets = {p.value for p in paths if p.kind == 'return'}
        if len(rets) == 1:
            v = next(iter(rets))
            if v[0] == 'call' and v[1][0] in ('g', 'fn', 'bound') and tuple(v[2]) == (P(names[0]),) and not v[3] and v[1][0] == 'g' and v[1][1].startswith('utils.'):
                f = v[1]
                continue
        return paths, names[0]
    return None


def json_hints(an):
    r = dict(why='', hint_key=None, standard_b64=False, single_key=False, uses_hints=False)
    R = repo_class(an)
    try:
        enc = _hook_function(an, R, 'serialize', 'json.dumps', 'default')
        dec = _hook_function(an, R, 'deserialize', 'json.loads', 'object_hook')
    except (Unsupported, Budget, AttributeError) as e:
        r['why'] = f'serialisation hooks could not be followed ({e!r})'
        return r
    if enc is None or dec is None:
        r['why'] = 'serialize / deserialize do not pass one hook to json.dumps(default=) / json.loads(object_hook=)'
        return r
    r['uses_hints'] = True
    b64e = ('base64.standard_b64encode', 'base64.b64encode')
    b64d = ('base64.standard_b64decode', 'base64.b64decode')
    paths, x = enc
    keys, enc_std = set(), True
    for p in paths:
        if p.kind != 'return':
            continue
        d = _dict_items(p.value) if p.value[0] == 'dict' else None
        if d is None or len(d) != 1:
            keys.add(None)
            continue
        (k, v), = d.items()
        keys.add(k)
        calls = [c for c in subterms(v) if c[0] == 'call' and c[1][0] == 'g' and c[1][1] in b64e and tuple(c[2]) == (P(x),) and not c[3]]
        if not calls:
            enc_std = False
    paths, y = dec
    rev, dec_std, single = set(), True, True
    one = I(('cmp', '==', ('c', 1), ('call', ('g', 'len'), (P(y),), ())))
    one_b = I(('cmp', '==', ('call', ('g', 'len'), (P(y),), ()), ('c', 1)))
    n_dec = 0
    for p in paths:
        if p.kind != 'return' or p.value == P(y):
            continue
        n_dec += 1
        v = p.value
        if not (v[0] == 'call' and v[1][0] == 'g' and v[1][1] in b64d and len(v[2]) == 1 and not v[3]
                and v[2][0][0] == 'sub' and v[2][0][1] == P(y) and v[2][0][2][0] == 'c'):
            dec_std = False
            rev.add(None)
            continue
        rev.add(v[2][0][2][1])
        if not any(c[0] == 'cond' and c[2] is True and c[1] in (one, one_b) for c in p.events):
            single = False
    if len(keys) == 1 and keys == rev and None not in keys:
        r['hint_key'] = next(iter(keys))
    else:
        r['why'] = f'hint keys written {sorted(map(str, keys))} / read {sorted(map(str, rev))}'
    r['standard_b64'] = enc_std and dec_std and n_dec > 0
    r['single_key'] = single and n_dec > 0
    return r


# =================================================================================================== snapshot: the file reader
def stream_files(an):
    """the generator under `Repository.snapshot` that yields what it read from the files: between reading a block and yielding it
    the record of the file (created with stream_end == stream_start) has its `stream_end` advanced by the length of the block"""
    r = dict(why='', advanced=False)
    R = repo_class(an)
    if R is None or 'snapshot' not in R.methods:
        r['why'] = 'Repository.snapshot not found'
        return r

    def is_block(t):
        t = unfresh(strip_views(t))
        return t[0] == 'call' and t[1][0] == 'attr' and t[1][2] in ('read', 'read1', 'readinto')

    cands = roots_with(an, [f for f in scope_functions(an, R, 'snapshot') if sf._is_generator(f)],
                       lambda e: e[0] == 'yield' and is_block(e[1]), gen_ok=True)
    if len(cands) != 1:
        r['why'] = f'{len(cands)} generators under Repository.snapshot yield blocks read from a file (one expected)'
        return r
    fn, paths = cands[0]
    n, ok = 0, True
    for p in paths:
        ev = p.events
        for i, e in enumerate(ev):
            if not (e[0] == 'yield' and is_block(e[1])):
                continue
            n += 1
            blk = strip_views(e[1])
            j = max((k for k in range(i) if ev[k][0] == 'CALL' and ev[k][1] == blk), default=None)
            ln = I(('call', ('g', 'len'), (e[1],), ()))
            lns = {ln, I(('call', ('g', 'len'), (blk,), ()))}
            good = False
            counters = []     # values of position counters that were advanced by len(block) since the read
            for x in ev[(j or 0):i]:
                if x[0] == 'augattr' and x[3] == 'Add' and x[4] in lns and x[2] != 'stream_end':
                    counters.append(x[5])
                rec = x[1] if x[0] in ('augattr', 'setattr') else None
                if rec is None or x[2] != 'stream_end' or rec[0] != 'new':
                    continue
                d = dict(rec[2])
                if 'stream_start' not in d or d.get('stream_start') != d.get('stream_end'):
                    continue
                cur = I(('attr', rec, 'stream_end'))
                if x[0] == 'augattr' and x[3] == 'Add' and x[4] in lns:
                    good = True
                if x[0] == 'setattr':
                    v = x[3]
                    # <record>.stream_end = <record>.stream_end + len(block)
                    if v[0] == 'bin' and v[1] == 'Add' and ((v[2] == cur and v[3] in lns) or (v[3] == cur and v[2] in lns)):
                        good = True
                    # <record>.stream_end = <position counter>, the counter the record was created at, advanced by len(block) since the read
                    if v in counters and v[0] == 'bin' and v[1] == 'Add' and v[2] == d['stream_end'] and v[3] in lns:
                        good = True
            if j is None or not good:
                ok = False
    r['advanced'] = ok and n > 0
    if not r['advanced']:
        r['why'] = 'stream_end of the file record is not advanced by len(block) between reading a block and yielding it'
    return r


# =================================================================================================== C06 / C15 advisory shapes
def _tag_guard(events, upto, parse_meth, loc):
    """MAC(FROMHEX(name)) == FROMHEX(tag) established before index upto, name / tag = components of <self>.<parse_meth>(loc)"""
    for a, b in eq_guards(events, upto):
        for m, t in ((a, b), (b, a)):
            if m[0] == 'MAC' and m[1][0] == 'FROMHEX' and t[0] == 'FROMHEX':
                for nm, tg, in ((m[1][1], t[1]),):
                    if nm[0] in ('sub', 'attr') and tg[0] in ('sub', 'attr') and nm[1] == tg[1]:
                        pr = nm[1]
                        is_name = nm[2] in (C(0), 'name')
                        is_tag = tg[2] in (C(1), 'tag')
                        if is_name and is_tag and pr[0] == 'call' and pr[1][0] == 'attr' and pr[1][2] == parse_meth and tuple(pr[2]) == (loc,):
                            return True
    return False


def clean_validates_tag(an):
    """`clean`: a chunk location taken from the backend listing is only scheduled for deletion (added to a collection / deleted) in
    an encrypted repository after MAC(FROMHEX(name)) == FROMHEX(tag) held for the parts of parse_chunk_location(location)"""
    R = repo_class(an)
    try:
        paths = an.paths(R.methods['clean'])
    except (KeyError, AttributeError, Unsupported, Budget) as e:
        return dict(ok=False, why=f'clean could not be analysed ({e!r})')
    n, ok, why = 0, True, ''
    for p in paths:
        ev = p.events
        for i, e in enumerate(ev):
            if e[0] != 'CALL' or e[1][0] not in ('call', 'BACKEND') or is_benign_call(e[1]):
                continue
            if e[1][0] == 'call' and e[1][1][0] == 'attr' and e[1][1][2] in ('parse_chunk_location', 'search', 'match'):
                continue
            locs = [a for a in call_args(e[1]) if a[0] == 'elem' and any(x[0] == 'attr' and x[2] == 'list_files' for x in subterms(a))]
            for loc in locs:
                n += 1
                pol = enc_polarity(ev[:i])
                if pol is None or (pol and not _tag_guard(ev, i, 'parse_chunk_location', loc)):
                    ok = False
                    why = 'clean: a listed chunk is scheduled for deletion without the tag check of an encrypted repository'
    return dict(ok=ok and n > 0, why=why or ('' if n else 'clean: no scheduling of listed chunks found'))


def delete_refuses_before_mutation(an):
    """`delete_snapshots`: every explicit refusal (raise) happens before the first deletion is started, and there are the two refusals:
    a requested snapshot whose private data could not be decrypted (`body['data'] is None`) and requested names that were not found"""
    R = repo_class(an)
    try:
        paths = an.paths(R.methods['delete_snapshots'])
    except (KeyError, AttributeError, Unsupported, Budget) as e:
        return dict(ok=False, why=f'delete_snapshots could not be analysed ({e!r})')
    deleters = set()
    for fn in scope_functions(an, R, 'delete_snapshots'):
        if fn is R.methods['delete_snapshots']:
            continue
        try:
            if any(is_backend(e, 'delete') for p in an.paths(fn) for e in p.events):
                deleters.add(id(fn))
        except (Unsupported, Budget):
            deleters.add(id(fn))

    def mutates(e):
        if e[0] != 'CALL':
            return False
        if e[1][0] == 'BACKEND' and e[1][1] == 'delete':
            return True
        return any(x[0] in ('fn', 'bound', 'fnref') and x[-1 if x[0] == 'fnref' else 1] in deleters for x in subterms(e[1]))

    foreign = unknown = False
    ok, n_mut = True, 0
    for p in paths:
        ev = p.events
        first = next((i for i, e in enumerate(ev) if mutates(e)), None)
        if first is not None:
            n_mut += 1
            if any(e[0] == 'raise' for e in ev[first:]):
                ok = False
        if p.kind == 'raise' and first is None:
            conds = [c for c in ev if c[0] == 'cond']
            if conds:
                a, b = conds[-1][1], conds[-1][2]
                if a[0] == 'cmp' and a[1] == 'is' and a[3] == sf.NONE and b is True and any(x == C('data') for x in subterms(a[2])):
                    foreign = True
                elif b is True and a[0] not in ('cmp',):
                    unknown = True
    good = ok and n_mut > 0 and foreign and unknown
    return dict(ok=good, why='' if good else 'delete_snapshots: the two refusals (different key / not available) before the first deletion not found')


def _sort_calls(paths):
    """(path, index, receiver-or-first-arg, key function value, reverse value) for `<x>.sort(key=…, reverse=…)` / `sorted(<x>, key=…, reverse=…)`"""
    out = []
    for p in paths:
        for i, e in enumerate(p.events):
            if e[0] == 'CALL' and e[1][0] == 'call':
                f, kw = e[1][1], dict(e[1][3])
                if (f[0] == 'attr' and f[2] == 'sort') or f == I(('g', 'sorted')):
                    out.append((p, i, f[1] if f[0] == 'attr' else (e[1][2][0] if e[1][2] else None), kw.get('key'), kw.get('reverse')))
    return out


def _key_returns(an, keyf, like):
    try:
        paths, names = an.apply_paths(keyf, 1, like)
    except (Unsupported, Budget, KeyError, AttributeError):
        return None, None
    return [p.value for p in paths if p.kind == 'return'], (P(names[0]) if names else None)


def selection_shapes(an):
    """C15 advisory: restore sorts the loaded snapshots by data.utc_timestamp descending, skips a path it has already planned and a
    path the file filter rejects; the listings sort their rows by the timestamp they stored first in the row, descending"""
    R = repo_class(an)
    r = dict(restore_ok=False, listings_ok=False, why='')
    try:
        paths = [p for p in an.paths(R.methods['restore']) if p.kind == 'return']
        by_ts = {}
        sort_ok = True
        for p, i, recv, keyf, rev in _sort_calls(paths):
            vals, x = _key_returns(an, keyf, R.methods['restore']) if keyf is not None else (None, None)
            if vals and all(v == I(('sub', ('sub', x, C('data')), C('utc_timestamp'))) for v in vals):
                by_ts.setdefault(id(p), []).append(rev)
        # every completed restore has sorted the snapshots by their timestamp, newest first
        sort_ok = bool(paths) and all(by_ts.get(id(p)) and all(rv == sf.TRUE for rv in by_ts[id(p)]) for p in paths)
        first_ok = filt_ok = False
        bad = False
        for p in paths:
            ev = p.events
            for i, e in enumerate(ev):
                if e[0] != 'cond' or e[2] is not True or e[1][0] != 'cmp':
                    continue
                a = e[1]
                is_path = lambda t: t[0] == 'sub' and t[2] == C('path') and t[1][0] == 'elem'
                kind = None
                if a[1] == 'in' and is_path(a[2]):
                    kind = 'first'
                elif a[1] == 'is' and a[3] == sf.NONE and a[2][0] == 'call' and a[2][1][0] == 'attr' and a[2][1][2] == 'search' and a[2][2] and is_path(a[2][2][0]):
                    kind = 'filt'
                if kind is None:
                    continue
                rest = []
                for x in ev[i + 1:]:
                    if x[0] in ('endloop',):
                        break
                    rest.append(x)
                if any(x[0] in ('setitem', 'augitem', 'setattr') or (x[0] == 'CALL' and not is_benign_call(x[1])) for x in rest):
                    bad = True
                elif kind == 'first':
                    first_ok = True
                else:
                    filt_ok = True
        r['restore_ok'] = sort_ok and first_ok and filt_ok and not bad
    except (KeyError, AttributeError, Unsupported, Budget) as e:
        r['why'] = f'restore could not be analysed ({e!r})'
    ok = True
    for meth in ('list_snapshots', 'list_files'):
        try:
            paths = [p for p in an.paths(R.methods[meth]) if p.kind == 'return']
            sorts = _sort_calls(paths)
            # paths that return early (nothing to list) have no rows to sort
            if not sorts:
                ok = False
            for p, i, recv, keyf, rev in sorts:
                vals, x = _key_returns(an, keyf, R.methods[meth]) if keyf is not None else (None, None)
                first = I(('sub', x, C(0))) if x is not None else None
                if rev != sf.TRUE or not vals or not any(v == first for v in vals) or any(v != first and v[0] != 'c' for v in vals):
                    ok = False
                rows = [e[1][2][0] for e in p.events[:i] if e[0] == 'CALL' and e[1][0] == 'call' and e[1][1][0] == 'attr' and e[1][1][2] == 'append'
                        and e[1][2] and e[1][2][0][0] == 'tuple' and len(e[1][2][0][1]) == 2]
                for row in rows:
                    ts = row[1][0]
                    if not (ts == sf.NONE or (ts[0] == 'sub' and ts[2] == C('utc_timestamp'))):
                        ok = False
        except (KeyError, AttributeError, Unsupported, Budget):
            ok = False
    r['listings_ok'] = ok
    return r
