"""symflow — a small symbolic interpreter over Python ASTs, shared by the extractor plug-ins that must recognise STRUCTURE
(tools/sections/03_crash.py, 08_location.py, 13_store.py, 13_objcmd.py) without depending on how the source spells it.

A function is executed ONCE on symbolic arguments.  Names are resolved through assignments, module / class constants, default
arguments and imports; calls of helpers that live in the same file (methods through `self`, static methods, nested functions,
lambdas, module-level functions, generator helpers when they are iterated, callbacks handed to `map` / executors) are inlined
a few levels deep.  The result is a flat list of EVENTS in program order

    call / assign / store / return / raise / yield / collect / break / continue / assert

each with the VALUE it concerns (a hashable term in which every local name has been replaced by what it stands for), the GUARD
under which it happens (a set of literals: conditions of the enclosing branches with their polarity, negated conditions of
earlier `if c: return / continue / raise` exits, implications `¬a ∨ ¬b` left behind by nested exits, conditions of comprehension
filters) and its CONTEXT (enclosing try-body / handler / else / finally / loop / with / inlined call).  Conditions are normalised
(`not`, `!=`, `is not`, De Morgan, `>` ↔ `<`, constant folding, conditional expressions ↔ if/else), loops record their carried
variables (`init`, `next`) and their exits, so `while True … break`, `while flag`, walrus loops and `iter(f, sentinel)` loops are
comparable (`continue_condition`).

Facts are then QUERIES over events — "every yield is guarded by ¬ P.endswith(S)", "the rename is the last effect of the try
body and its source derives from the temporary" — which do not change when locals / private helpers are renamed, code moves into or
out of a helper, branches are swapped, a guard becomes an early exit, a literal becomes a constant, logging is added or independent
statements are reordered.  Whatever is not understood stays an opaque term, so a query fails (fact false / `opaque`), never guesses.
"""
import ast
import itertools

# ------------------------------------------------------------------------------------------------ terms
NONE = ('const', None)
TRUE = ('const', True)
FALSE = ('const', False)
SELF = ('self',)

PASS_THROUGH_ITER = {'sorted', 'list', 'tuple', 'iter', 'reversed', 'set', 'frozenset', 'aiter'}
MAX_DEPTH = 7
MAX_ALTS = 6
MAX_EVENTS = 60000


def const(v):
    return ('const', v)


def is_const(v, typ=None):
    return isinstance(v, tuple) and v and v[0] == 'const' and (typ is None or (isinstance(v[1], typ) and not (typ is int and isinstance(v[1], bool))))


def subterms(v, stop=None):
    """all sub-terms of v (v included), pre-order; does not descend into terms for which stop(term) is true"""
    stack = [v]
    seen = set()
    while stack:
        t = stack.pop()
        if not isinstance(t, tuple):
            if isinstance(t, frozenset):
                stack.extend(t)
            continue
        if id(t) in seen:
            continue
        seen.add(id(t))
        if t and isinstance(t[0], str):
            yield t
            if stop is not None and stop(t):
                continue
        stack.extend(x for x in t if isinstance(x, (tuple, frozenset)))


def contains(v, pred, stop=None):
    return any(pred(t) for t in subterms(v, stop))


def mentions(v, target, stop=None):
    return any(t == target for t in subterms(v, stop))


def term_size(v, limit=4000):
    n = 0
    for _ in subterms(v):
        n += 1
        if n > limit:
            break
    return n


# ---------------------------------------------------------------------------------------------- conditions
def mk_not(c):
    if is_const(c):
        return const(not c[1])
    if c[0] == 'not':
        return c[1]
    return ('not', c)


def mk_and(xs):
    out = []
    for x in xs:
        if is_const(x):
            if not x[1]:
                return x if len(xs) == 1 else FALSE
            continue
        if x[0] == 'and':
            out.extend(x[1])
        else:
            out.append(x)
    if not out:
        return TRUE
    return out[0] if len(out) == 1 else ('and', tuple(out))


def mk_or(xs):
    out = []
    for x in xs:
        if is_const(x):
            if x[1]:
                return x if len(xs) == 1 else TRUE
            continue
        if x[0] == 'or':
            out.extend(x[1])
        else:
            out.append(x)
    if not out:
        return FALSE
    return out[0] if len(out) == 1 else ('or', tuple(out))


def _ordered(a, b):
    if is_const(a) and not is_const(b):
        return b, a
    if is_const(b) and not is_const(a):
        return a, b
    return (a, b) if repr(a) <= repr(b) else (b, a)


def mk_cmp(op, a, b):
    """normal forms: eq (constant on the right, otherwise ordered), lt, le, in, is, isnone; the rest as negations / swaps"""
    if op in ('is', 'isnot', 'eq', 'ne') and (a == NONE or b == NONE):
        x = b if a == NONE else a
        r = const(x[1] is None) if is_const(x) else ('isnone', x)
        return r if op in ('is', 'eq') else mk_not(r)
    if op == 'isnot':
        return mk_not(mk_cmp('is', a, b))
    if op == 'ne':
        return mk_not(mk_cmp('eq', a, b))
    if op == 'notin':
        return mk_not(mk_cmp('in', a, b))
    if op == 'gt':
        return mk_cmp('lt', b, a)
    if op == 'ge':
        return mk_cmp('le', b, a)
    if op in ('eq', 'is'):
        if is_const(a) and is_const(b):
            try:
                return const(a[1] == b[1] and type(a[1]) is type(b[1]))
            except Exception:  # noqa: BLE001
                pass
        a, b = _ordered(a, b)
        # (phi c x y) == k with constant branches folds into the condition
        if a[0] == 'phi' and is_const(b) and is_const(a[2]) and is_const(a[3]):
            return mk_phi(a[1], mk_cmp(op, a[2], b), mk_cmp(op, a[3], b))
        return (op, a, b)
    if op in ('lt', 'le') and is_const(a) and is_const(b):
        try:
            return const(a[1] < b[1] if op == 'lt' else a[1] <= b[1])
        except Exception:  # noqa: BLE001
            pass
    return (op, a, b)


def truthy(v):
    """the term as a condition"""
    if is_const(v):
        return const(bool(v[1]))
    if v[0] == 'phi':
        a, b = truthy(v[2]), truthy(v[3])
        if is_const(a) and is_const(b):
            return mk_phi(v[1], a, b)
        if is_const(a):                     # (True if c else x) ≡ c ∨ x ;  (False if c else x) ≡ ¬c ∧ x
            return mk_or([v[1], b]) if a[1] else mk_and([mk_not(v[1]), b])
        if is_const(b):                     # (x if c else True) ≡ ¬c ∨ x ;  (x if c else False) ≡ c ∧ x
            return mk_or([mk_not(v[1]), a]) if b[1] else mk_and([v[1], a])
    return v


def mk_phi(c, a, b):
    """`a if c else b`; the condition is kept in positive normal form (branches swapped under a negation)"""
    c = truthy(c)
    if is_const(c):
        return a if c[1] else b
    if a == b:
        return a
    if c[0] == 'not':
        return mk_phi(c[1], b, a)
    if a == TRUE and b == FALSE:
        return c
    if a == FALSE and b == TRUE:
        return mk_not(c)
    if a[0] == 'tuple' and b[0] == 'tuple' and len(a[1]) == len(b[1]):
        return ('tuple', tuple(mk_phi(c, x, y) for x, y in zip(a[1], b[1])))
    return ('phi', c, a, b)


def literals(c, pol=True):
    """the condition as a list of guard items.  An item is `(atom, polarity)` or `(('or', frozenset(items)), True)`."""
    c = truthy(c)
    if is_const(c):
        return [] if bool(c[1]) == pol else [(FALSE, True)]
    if c[0] == 'not':
        return literals(c[1], not pol)
    if (c[0] == 'and' and pol) or (c[0] == 'or' and not pol):
        out = []
        for x in c[1]:
            out.extend(literals(x, pol))
        return out
    if (c[0] == 'or' and pol) or (c[0] == 'and' and not pol):
        alts = []
        for x in c[1]:
            ls = literals(x, pol)
            if len(ls) != 1:
                return [(c, pol)]           # a conjunction inside a disjunction: kept as one opaque atom
            alts.append(ls[0])
        return [mk_disj(alts)]
    if c[0] == 'phi' and is_const(c[2]) and is_const(c[3]):
        return literals(mk_phi(c[1], truthy(c[2]), truthy(c[3])), pol)
    return [(c, pol)]


def mk_disj(items):
    flat = set()
    for it in items:
        if isinstance(it[0], tuple) and it[0] and it[0][0] == 'or' and isinstance(it[0][1], frozenset) and it[1] is True:
            flat |= it[0][1]
        else:
            flat.add(it)
    if len(flat) == 1:
        return next(iter(flat))
    return (('or', frozenset(flat)), True)


def negate_item(it):
    """negation of a guard item as a list of items (a conjunction), or None"""
    atom, pol = it
    if isinstance(atom, tuple) and atom and atom[0] == 'or' and isinstance(atom[1], frozenset):
        out = []
        for sub in atom[1]:
            n = negate_item(sub)
            if n is None or len(n) != 1:
                return None
            out.extend(n)
        return out
    return [(atom, not pol)]


# ------------------------------------------------------------------------------------------------ module
class Module:
    """one parsed source file: imports (local name → dotted origin), module-level functions / classes / simple assignments"""

    def __init__(self, source, name=''):
        self.tree = ast.parse(source)
        self.name = name
        self.imports, self.funcs, self.classes, self.assigns = {}, {}, {}, {}
        for st in self.tree.body:
            self._top(st)

    def _top(self, st):
        if isinstance(st, (ast.Import, ast.ImportFrom)):
            self.imports.update(import_bindings(st))
        elif isinstance(st, (ast.FunctionDef, ast.AsyncFunctionDef)):
            self.funcs[st.name] = st
        elif isinstance(st, ast.ClassDef):
            self.classes[st.name] = st
        elif isinstance(st, ast.Assign) and len(st.targets) == 1 and isinstance(st.targets[0], ast.Name):
            self.assigns[st.targets[0].id] = st.value
        elif isinstance(st, ast.AnnAssign) and isinstance(st.target, ast.Name) and st.value is not None:
            self.assigns[st.target.id] = st.value
        elif isinstance(st, (ast.If, ast.Try)):
            for sub in st.body:
                self._top(sub)


def import_bindings(st):
    out = {}
    if isinstance(st, ast.Import):
        for a in st.names:
            if a.asname:
                out[a.asname] = a.name
            else:
                out[a.name.split('.')[0]] = a.name.split('.')[0]
    else:
        base = '.' * (st.level or 0) + (st.module or '')
        for a in st.names:
            out[a.asname or a.name] = (base + '.' + a.name) if base and not base.endswith('.') else (base + a.name)
    return out


def class_methods(cls):
    return {f.name: f for f in cls.body if isinstance(f, (ast.FunctionDef, ast.AsyncFunctionDef))}


def class_assigns(cls):
    out = {}
    for st in cls.body:
        if isinstance(st, ast.Assign) and len(st.targets) == 1 and isinstance(st.targets[0], ast.Name):
            out[st.targets[0].id] = st.value
        elif isinstance(st, ast.AnnAssign) and isinstance(st.target, ast.Name) and st.value is not None:
            out[st.target.id] = st.value
    return out


def is_generator(fn):
    """does the function body (not nested functions) contain yield"""
    stack = list(fn.body) if not isinstance(fn, ast.Lambda) else [fn.body]
    while stack:
        n = stack.pop()
        if isinstance(n, (ast.Yield, ast.YieldFrom)):
            return True
        if isinstance(n, (ast.FunctionDef, ast.AsyncFunctionDef, ast.Lambda, ast.ClassDef)):
            continue
        stack.extend(ast.iter_child_nodes(n))
    return False


def assigned_names(nodes):
    """names (re)bound anywhere below `nodes` (not inside nested function definitions)"""
    out = set()
    stack = list(nodes)
    while stack:
        n = stack.pop()
        if isinstance(n, (ast.FunctionDef, ast.AsyncFunctionDef, ast.ClassDef)):
            out.add(n.name)
            continue
        if isinstance(n, ast.Lambda):
            continue
        if isinstance(n, ast.Name) and isinstance(n.ctx, (ast.Store, ast.Del)):
            out.add(n.id)
        elif isinstance(n, ast.ExceptHandler) and n.name:
            out.add(n.name)
        elif isinstance(n, (ast.Import, ast.ImportFrom)):
            out.update(import_bindings(n))
        stack.extend(ast.iter_child_nodes(n))
    return out


# ------------------------------------------------------------------------------------------------ events
class Event:
    __slots__ = ('kind', 'value', 'extra', 'guard', 'ctx', 'seq', 'node', 'fn')

    def __init__(self, kind, value, extra, guard, ctx, seq, node, fn):
        self.kind, self.value, self.extra, self.guard, self.ctx, self.seq, self.node, self.fn = kind, value, extra, guard, ctx, seq, node, fn

    # --- conveniences for 'call' events
    @property
    def callee(self):
        return self.value[1] if self.kind == 'call' else None

    @property
    def args(self):
        return self.value[2] if self.kind == 'call' else ()

    @property
    def kwargs(self):
        return dict(self.value[3]) if self.kind == 'call' else {}

    def inside(self, tag, ident=None):
        return any(c[0] == tag and (ident is None or c[1] == ident) for c in self.ctx)

    def __repr__(self):
        return f'<{self.seq} {self.kind} {show(self.value)} | {show_guard(self.guard)} | {[c[:2] for c in self.ctx]}>'


class Env:
    def __init__(self, parent=None):
        self.vars = {}
        self.parent = parent
        self.nonlocals = set()

    def get(self, name):
        e = self
        while e is not None:
            if name in e.vars:
                return e.vars[name]
            e = e.parent
        return None

    def set(self, name, value):
        if name in self.nonlocals:
            e = self.parent
            while e is not None:
                if name in e.vars:
                    e.vars[name] = value
                    return
                e = e.parent
        self.vars[name] = value


class Loop:
    def __init__(self, ident, kind, node):
        self.id, self.kind, self.node = ident, kind, node
        self.init, self.next, self.test, self.outer_guard = {}, {}, None, frozenset()
        self.iter = None


class TooBig(Exception):
    pass


class Interp:
    """symbolic execution of functions of one module (optionally in the context of one class: `self` resolves methods/constants)"""

    def __init__(self, module, cls=None, inline=lambda name: True):
        self.mod = module
        self.cls = cls if isinstance(cls, ast.ClassDef) else (module.classes.get(cls) if cls else None)
        self.methods = class_methods(self.cls) if self.cls is not None else {}
        self.cassigns = class_assigns(self.cls) if self.cls is not None else {}
        self.inline_ok = inline
        self.funcs = {}            # fid -> (node, env, self-bound?, name)
        self._fid = {}
        self.ids = itertools.count(1)
        self.events = []
        self.guard = []            # list of (item, origin)
        self.ctx = []
        self.stack = []            # function nodes being executed
        self.frames = []           # per function: list of (relative guard, value) returns / yields
        self.loops, self.trys = {}, {}
        self._globals_cache = {}
        self._busy_globals = set()

    # ------------------------------------------------------------------ entry points
    def run(self, fn, args=None, kwargs=None):
        """execute a function (node or method name) on symbolic arguments `('arg', index | kw-only name)`; → (events, return term)"""
        node = self.methods.get(fn) if isinstance(fn, str) and fn in self.methods else (self.mod.funcs.get(fn) if isinstance(fn, str) else fn)
        if node is None:
            return None, None
        self.events, self.guard, self.ctx, self.stack, self.frames = [], [], [], [], []
        bound = node.name in self.methods and self.methods[node.name] is node and not self._is_static(node)
        fid = self._func(node, None, SELF if bound else None)
        a = node.args
        pos = [p.arg for p in a.posonlyargs + a.args]
        if bound:
            pos = pos[1:]
        actual = list(args) if args is not None else [('arg', i) for i in range(len(pos))]
        kw = dict(kwargs or {})
        for p in a.kwonlyargs:
            kw.setdefault(p.arg, ('arg', p.arg))
        ret = self._invoke(fid, tuple(actual), kw, node, top=True)
        return self.events, ret

    # ------------------------------------------------------------------ helpers
    def _is_static(self, node):
        return any(isinstance(d, ast.Name) and d.id == 'staticmethod' for d in node.decorator_list)

    def _is_classmethod(self, node):
        return any(isinstance(d, ast.Name) and d.id == 'classmethod' for d in node.decorator_list)

    def _func(self, node, env, selfval):
        key = (id(node), id(env), selfval)
        if key not in self._fid:
            fid = next(self.ids)
            self._fid[key] = fid
            self.funcs[fid] = (node, env, selfval, getattr(node, 'name', '<lambda>'))
        return self._fid[key]

    def emit(self, kind, value, node=None, extra=None):
        if len(self.events) > MAX_EVENTS:
            raise TooBig()
        ev = Event(kind, value, extra, frozenset(g for g, _ in self.guard), tuple(self.ctx), len(self.events), node,
                   self.stack[-1][1] if self.stack else None)
        self.events.append(ev)
        return ev

    def fresh(self, what):
        return ('unknown', what, next(self.ids))

    # ------------------------------------------------------------------ names
    def lookup(self, name, env):
        v = env.get(name) if env is not None else None
        if v is not None:
            return v
        return self.global_name(name)

    def global_name(self, name):
        if name in self._globals_cache:
            return self._globals_cache[name]
        m = self.mod
        if name in m.funcs:
            v = ('func', self._func(m.funcs[name], None, None), name)
        elif name in m.classes:
            v = ('class', name)
        elif name in m.assigns and name not in self._busy_globals:
            self._busy_globals.add(name)
            saved = (self.events, self.guard, self.ctx)
            self.events, self.guard, self.ctx = [], [], []
            try:
                v = self.eval(m.assigns[name], Env())
            except TooBig:
                v = ('global', name)
            finally:
                self.events, self.guard, self.ctx = saved
                self._busy_globals.discard(name)
            # a module-level name bound to a non-literal stays recognisable by its name as well
            if not is_const(v) and v[0] not in ('tuple', 'list', 'set', 'dict', 'func'):
                v = ('modvar', name, v)
        elif name in m.imports:
            v = ('global', m.imports[name])
        else:
            v = ('global', name)
        self._globals_cache[name] = v
        return v

    def attr(self, v, name):
        if v[0] == 'global':
            return ('global', v[1] + '.' + name)
        if v[0] == 'modvar':
            return ('attr', v, name)
        if v == SELF or v[0] == 'class' and self.cls is not None and v[1] == self.cls.name or v == ('typeof', SELF):
            if name in self.methods:
                node = self.methods[name]
                if self._is_static(node):
                    return ('func', self._func(node, None, None), name)
                if self._is_classmethod(node):
                    return ('func', self._func(node, None, ('typeof', SELF)), name)
                if any(_deco_name(d) in ('property', 'cached_property') for d in node.decorator_list):
                    return ('attr', v, name)
                return ('func', self._func(node, None, SELF), name)
            if name in self.cassigns:
                key = '.cls.' + name
                if key not in self._globals_cache and key not in self._busy_globals:
                    self._busy_globals.add(key)
                    saved = (self.events, self.guard, self.ctx)
                    self.events, self.guard, self.ctx = [], [], []
                    try:
                        self._globals_cache[key] = self.eval(self.cassigns[name], Env())
                    except TooBig:
                        self._globals_cache[key] = ('attr', SELF, name)
                    finally:
                        self.events, self.guard, self.ctx = saved
                        self._busy_globals.discard(key)
                got = self._globals_cache.get(key)
                if got is not None and (is_const(got) or got[0] in ('tuple', 'list', 'set', 'dict')):
                    return got
                return ('attr', SELF, name)
            if name == '__class__':
                return ('typeof', SELF)
            return ('attr', SELF, name)
        if v[0] == 'phi' and name in ('parent', 'name'):
            return ('attr', v, name)
        return ('attr', v, name)

    def sub(self, v, idx):
        if v[0] in ('tuple', 'list') and is_const(idx, int) and not any(x[0] == 'star' for x in v[1]):
            i = idx[1]
            if -len(v[1]) <= i < len(v[1]):
                return v[1][i]
        if v[0] == 'dict' and is_const(idx):
            for k, x in v[1]:
                if k == idx:
                    return x
        if v[0] == 'phi':
            a, b = self.sub(v[2], idx), self.sub(v[3], idx)
            if a[0] != 'sub' or b[0] != 'sub':
                return mk_phi(v[1], a, b)
        if is_const(v, (str, bytes, tuple)) and is_const(idx, int):
            try:
                return const(v[1][idx[1]])
            except Exception:  # noqa: BLE001
                pass
        if is_const(v, (str, bytes)) and idx[0] == 'slice' and all(is_const(x) for x in idx[1:]):
            try:
                return const(v[1][slice(idx[1][1], idx[2][1], idx[3][1])])
            except Exception:  # noqa: BLE001
                pass
        return ('sub', v, idx)

    # ------------------------------------------------------------------ expressions
    def eval(self, e, env):
        m = getattr(self, 'e_' + type(e).__name__, None)
        if m is None:
            return self.fresh(type(e).__name__)
        return m(e, env)

    def e_Constant(self, e, env):
        return const(e.value)

    def e_Name(self, e, env):
        return self.lookup(e.id, env)

    def e_Attribute(self, e, env):
        return self.attr(self.eval(e.value, env), e.attr)

    def e_Await(self, e, env):
        v = self.eval(e.value, env)
        self.emit('await', v, e)
        return v

    def e_Slice(self, e, env):
        return ('slice',) + tuple(self.eval(x, env) if x is not None else NONE for x in (e.lower, e.upper, e.step))

    def e_Subscript(self, e, env):
        return self.sub(self.eval(e.value, env), self.eval(e.slice, env))

    def e_Starred(self, e, env):
        return ('star', self.eval(e.value, env))

    def _elts(self, elts, env):
        out = []
        for x in elts:
            v = self.eval(x, env)
            if v[0] == 'star' and v[1][0] in ('tuple', 'list') and not any(y[0] == 'star' for y in v[1][1]):
                out.extend(v[1][1])
            else:
                out.append(v)
        return tuple(out)

    def e_Tuple(self, e, env):
        return ('tuple', self._elts(e.elts, env))

    def e_List(self, e, env):
        return ('list', self._elts(e.elts, env))

    def e_Set(self, e, env):
        return ('set', frozenset(self._elts(e.elts, env)))

    def e_Dict(self, e, env):
        items = []
        for k, v in zip(e.keys, e.values):
            if k is None:
                d = self.eval(v, env)
                if d[0] == 'dict':
                    items.extend(d[1])
                else:
                    items.append((('dstar',), d))
            else:
                items.append((self.eval(k, env), self.eval(v, env)))
        return ('dict', tuple(items))

    def e_JoinedStr(self, e, env):
        parts = []
        for p in e.values:
            if isinstance(p, ast.Constant):
                parts.append(const(p.value))
            elif isinstance(p, ast.FormattedValue):
                v = self.eval(p.value, env)
                if p.conversion not in (-1, None) or p.format_spec is not None:
                    v = ('fmt', v, p.conversion, self.eval(p.format_spec, env) if p.format_spec is not None else NONE)
                parts.append(v)
        return mk_concat(parts)

    def e_FormattedValue(self, e, env):
        return self.eval(e.value, env)

    def e_UnaryOp(self, e, env):
        v = self.eval(e.operand, env)
        if isinstance(e.op, ast.Not):
            return mk_not(truthy(v))
        if is_const(v, (int, float)):
            try:
                return const({ast.USub: lambda x: -x, ast.UAdd: lambda x: +x, ast.Invert: lambda x: ~x}[type(e.op)](v[1]))
            except Exception:  # noqa: BLE001
                pass
        return ('unop', type(e.op).__name__, v)

    def e_BoolOp(self, e, env):
        vals = [truthy(self.eval(x, env)) for x in e.values]
        return mk_and(vals) if isinstance(e.op, ast.And) else mk_or(vals)

    def e_BinOp(self, e, env):
        return self.binop(type(e.op).__name__, self.eval(e.left, env), self.eval(e.right, env))

    def binop(self, op, a, b):
        if is_const(a) and is_const(b):
            try:
                f = {'Add': lambda x, y: x + y, 'Sub': lambda x, y: x - y, 'Mult': lambda x, y: x * y, 'FloorDiv': lambda x, y: x // y,
                     'Mod': lambda x, y: x % y}.get(op)
                if f is not None and type(a[1]) in (int, str, bytes) and type(b[1]) in (int, str, bytes) and not (op == 'Mod' and isinstance(a[1], (str, bytes))):
                    r = f(a[1], b[1])
                    if not isinstance(r, (str, bytes)) or len(r) < 4096:
                        return const(r)
            except Exception:  # noqa: BLE001
                pass
        if a[0] == 'phi' and is_const(b) and is_const(a[2]) and is_const(a[3]):
            return mk_phi(a[1], self.binop(op, a[2], b), self.binop(op, a[3], b))
        if b[0] == 'phi' and is_const(a) and is_const(b[2]) and is_const(b[3]):
            return mk_phi(b[1], self.binop(op, a, b[2]), self.binop(op, a, b[3]))
        if op == 'Add' and (a[0] == 'concat' or b[0] == 'concat' or is_const(a, str) or is_const(b, str)):
            return mk_concat([a, b])
        if op in ('Add', 'Mult') and is_const(a) and not is_const(b):
            a, b = b, a          # commutative on numbers; strings were handled above
        return ('binop', op, a, b)

    def e_Compare(self, e, env):
        ops = {ast.Eq: 'eq', ast.NotEq: 'ne', ast.Lt: 'lt', ast.LtE: 'le', ast.Gt: 'gt', ast.GtE: 'ge', ast.Is: 'is', ast.IsNot: 'isnot',
               ast.In: 'in', ast.NotIn: 'notin'}
        left = self.eval(e.left, env)
        parts = []
        for op, r in zip(e.ops, e.comparators):
            right = self.eval(r, env)
            parts.append(mk_cmp(ops[type(op)], left, right))
            left = right
        return mk_and(parts)

    def e_IfExp(self, e, env):
        c = truthy(self.eval(e.test, env))
        if is_const(c):
            return self.eval(e.body if c[1] else e.orelse, env)
        mark = len(self.guard)
        self.guard += [(l, 'branch') for l in literals(c, True)]
        a = self.eval(e.body, env)
        del self.guard[mark:]
        self.guard += [(l, 'branch') for l in literals(c, False)]
        b = self.eval(e.orelse, env)
        del self.guard[mark:]
        return mk_phi(c, a, b)

    def e_Lambda(self, e, env):
        return ('func', self._func(e, env, None), '<lambda>')

    def e_NamedExpr(self, e, env):
        v = self.eval(e.value, env)
        env.set(e.target.id, v)
        self.emit('assign', v, e, extra=e.target.id)
        return v

    def e_Yield(self, e, env):
        v = self.eval(e.value, env) if e.value is not None else NONE
        self._yield(v, e)
        return self.fresh('sent')

    def e_YieldFrom(self, e, env):
        it = self.eval(e.value, env)
        for v, lits in self.iter_elems(it, e):
            mark = len(self.guard)
            self.guard += [(l, 'iter') for l in lits]
            self._yield(v, e)
            del self.guard[mark:]
        return self.fresh('yield-from')

    def _yield(self, v, node):
        self.emit('yield', v, node)
        if self.frames:
            self.frames[-1]['yields'].append((self._relative_guard(self.frames[-1]['mark']), v))

    def _relative_guard(self, mark):
        return [g for g, origin in self.guard[mark:] if origin != 'assert']

    def _comp(self, e, env, elt_fn):
        """comprehension, evaluated where it is written: targets ↦ element of the iterable, filters ↦ guard literals"""
        cenv = Env(env)
        mark = len(self.guard)
        cid = next(self.ids)
        self.ctx.append(('comp', cid))
        conds = []
        alts_total = [()]
        try:
            for g in e.generators:
                it = self.eval(g.iter, cenv)
                alts = self.iter_elems(it, e)
                v, lits = alts[0] if len(alts) == 1 else (('elem', it), [])
                self.guard += [(l, 'iter') for l in lits]
                conds.extend(lits)
                self.bind(g.target, v, cenv, e, quiet=True)
                for c in g.ifs:
                    ls = literals(truthy(self.eval(c, cenv)), True)
                    conds.extend(ls)
                    self.guard += [(l, 'iter') for l in ls]
            elt = elt_fn(cenv)
            self.emit('collect', elt, e)
        finally:
            del self.guard[mark:]
            self.ctx.pop()
        del alts_total
        return ('comp', elt, tuple(conds), cid)

    def e_ListComp(self, e, env):
        return self._comp(e, env, lambda ce: self.eval(e.elt, ce))

    e_SetComp = e_ListComp
    e_GeneratorExp = e_ListComp

    def e_DictComp(self, e, env):
        return self._comp(e, env, lambda ce: ('tuple', (self.eval(e.key, ce), self.eval(e.value, ce))))

    # ------------------------------------------------------------------ calls
    def e_Call(self, e, env):
        f = self.eval(e.func, env)
        args = self._elts(e.args, env)
        kwargs = {}
        for k in e.keywords:
            v = self.eval(k.value, env)
            if k.arg is None:
                if v[0] == 'dict' and all(is_const(kk, str) for kk, _ in v[1]):
                    kwargs.update({kk[1]: vv for kk, vv in v[1]})
                else:
                    kwargs['**'] = v
            else:
                kwargs[k.arg] = v
        return self.call(f, args, kwargs, e, env)

    def call(self, f, args, kwargs, node, env=None):
        if f[0] == 'partial':
            merged = dict(f[3])
            merged.update(kwargs)
            return self.call(f[1], f[2] + tuple(args), merged, node, env)
        if f[0] == 'global':
            name = f[1]
            if name in ('functools.partial', 'partial') and args:
                return ('partial', args[0], tuple(args[1:]), tuple(sorted(kwargs.items())))
            if name == 'map' and len(args) == 2 and args[0][0] in ('func', 'partial'):
                return self._map(args[0], args[1], node)
            if name == 'filter' and len(args) == 2:
                return self._filter(args[0], args[1], node)
            if name in ('isinstance', 'len', 'str', 'int', 'bool') and len(args) >= 1 and is_const(args[0]) and name != 'isinstance':
                try:
                    return const({'len': len, 'str': str, 'int': int, 'bool': bool}[name](args[0][1]))
                except Exception:  # noqa: BLE001
                    pass
        if f[0] == 'func':
            node_f, fenv, selfval, name = self.funcs[f[1]]
            if self.inline_ok(name) and len(self.stack) < MAX_DEPTH and not any(n is node_f for n, _ in self.stack):
                if is_generator(node_f):
                    return ('gencall', f[1], tuple(args), tuple(sorted(kwargs.items())), next(self.ids))
                return self._invoke(f[1], tuple(args), kwargs, node)
            f = ('localfunc', name)
        val = ('call', f, tuple(args), tuple(sorted(kwargs.items(), key=lambda kv: kv[0])))
        self.emit('call', val, node)
        # a local function / lambda handed to something we cannot see into (an executor, a thread pool, a callback parameter) is
        # assumed to be invoked with the arguments that follow it
        for i, a in enumerate(args):
            if a[0] in ('func', 'partial'):
                self.ctx.append(('deferred', next(self.ids)))
                try:
                    self.call(a, tuple(args[i + 1:]), {}, node, env)
                finally:
                    self.ctx.pop()
                break
        for k, a in kwargs.items():
            if a[0] in ('func', 'partial') and k in ('target', 'callback', 'fn', 'func', 'function'):
                self.ctx.append(('deferred', next(self.ids)))
                try:
                    self.call(a, (), {}, node, env)
                finally:
                    self.ctx.pop()
        return val

    def _map(self, f, it, node):
        mid = next(self.ids)
        alts = self.iter_elems(it, node)
        v, lits = alts[0] if len(alts) == 1 else (('elem', it), [])
        self.ctx.append(('for', mid))
        mark = len(self.guard)
        self.guard += [(l, 'iter') for l in lits]
        try:
            r = self.call(f, (v,), {}, node)
            self.emit('collect', r, node)
        finally:
            del self.guard[mark:]
            self.ctx.pop()
        return ('comp', r, tuple(lits), mid)

    def _filter(self, f, it, node):
        mid = next(self.ids)
        alts = self.iter_elems(it, node)
        v, lits = alts[0] if len(alts) == 1 else (('elem', it), [])
        if f == NONE:
            c = v
        else:
            self.ctx.append(('for', mid))
            try:
                c = self.call(f, (v,), {}, node)
            finally:
                self.ctx.pop()
        return ('comp', v, tuple(lits) + tuple(literals(truthy(c), True)), mid)

    def _invoke(self, fid, args, kwargs, node, top=False, gen=False):
        """bind the parameters, execute the body; → return term (generators: the list of (guard, value) yields)"""
        fnode, fenv, selfval, name = self.funcs[fid]
        env = Env(fenv)
        a = fnode.args
        params = [p.arg for p in a.posonlyargs + a.args]
        defaults = [None] * (len(params) - len(a.defaults)) + list(a.defaults)
        args = list(args)
        if selfval is not None and params:
            env.vars[params[0]] = selfval
            params, defaults = params[1:], defaults[1:]
        kwargs = dict(kwargs)
        star = None
        flat = []
        for x in args:
            if x[0] == 'star':
                star = x
            else:
                flat.append(x)
        denv = fenv if fenv is not None else Env()
        for i, p in enumerate(params):
            if i < len(flat):
                env.vars[p] = flat[i]
            elif p in kwargs:
                env.vars[p] = kwargs.pop(p)
            elif star is not None or '**' in kwargs:
                env.vars[p] = self.fresh('arg:' + p)
            elif defaults[i] is not None:
                env.vars[p] = self.eval(defaults[i], denv)
            else:
                env.vars[p] = self.fresh('arg:' + p)
        if a.vararg is not None:
            rest = tuple(flat[len(params):]) + ((star,) if star is not None else ())
            env.vars[a.vararg.arg] = ('tuple', rest)
        for p, d in zip(a.kwonlyargs, a.kw_defaults):
            if p.arg in kwargs:
                env.vars[p.arg] = kwargs.pop(p.arg)
            elif '**' in kwargs:
                env.vars[p.arg] = self.fresh('arg:' + p.arg)
            elif d is not None:
                env.vars[p.arg] = self.eval(d, denv)
            else:
                env.vars[p.arg] = self.fresh('arg:' + p.arg)
        if a.kwarg is not None:
            extra = kwargs.pop('**', None)
            items = tuple((const(k), v) for k, v in sorted(kwargs.items()))
            if extra is not None:
                items += ((('dstar',), extra),)
            env.vars[a.kwarg.arg] = ('dict', items)
        call_id = next(self.ids)
        frame = {'mark': len(self.guard), 'returns': [], 'yields': [], 'id': call_id}
        self.frames.append(frame)
        self.stack.append((fnode, name))
        if not top:
            self.ctx.append(('inline', call_id, name))
        try:
            if isinstance(fnode, ast.Lambda):
                frame['returns'].append(([], self.eval(fnode.body, env)))
            else:
                self.block(fnode.body, env)
        finally:
            self.stack.pop()
            self.frames.pop()
            if not top:
                self.ctx.pop()
            # literals that were established by `raise` exits stay true for the caller
            keep = [(g, o) for g, o in self.guard[frame['mark']:] if o == 'term:raise']
            del self.guard[frame['mark']:]
            self.guard += keep
        if gen:
            return frame['yields']
        rets = frame['returns']
        if not rets:
            return NONE
        val = rets[-1][1]
        for g, v in reversed(rets[:-1]):
            c = mk_and([item_term(it) for it in g]) if g else TRUE
            val = mk_phi(c, v, val)
        return val

    # ------------------------------------------------------------------ iteration
    def iter_elems(self, it, node):
        """the alternatives [(element term, extra guard literals)] of iterating over `it`"""
        alts = self._iter_elems(it, node, 0)
        if alts is None or len(alts) > MAX_ALTS:
            return [(('elem', it), [])]
        return alts

    def _iter_elems(self, it, node, depth):
        if depth > 6:
            return None
        k = it[0]
        if k == 'comp':
            return [(it[1], list(it[2]))]
        if k == 'call' and it[1][0] == 'global' and it[1][1] in PASS_THROUGH_ITER and len(it[2]) >= 1 and it[2][0][0] != 'star':
            return self._iter_elems(it[2][0], node, depth + 1)
        if k == 'call' and it[1] == ('global', 'map') and len(it[2]) == 2:
            inner = self._iter_elems(it[2][1], node, depth + 1)
            if inner is None:
                return None
            out = []
            for v, lits in inner:
                r = ('call', it[2][0], (v,), ())
                out.append((r, lits))
            return out
        if k in ('tuple', 'list') and not any(x[0] == 'star' for x in it[1]):
            if len(it[1]) == 0:
                # an empty tuple is empty; an empty LIST display is usually filled by .append() later (mutation is not tracked)
                return [] if k == 'tuple' else [(('elem', it), [])]
            if len(it[1]) <= 3:
                return [(x, []) for x in it[1]]
            return None
        if k == 'phi':
            a, b = self._iter_elems(it[2], node, depth + 1), self._iter_elems(it[3], node, depth + 1)
            if a is None or b is None:
                return None
            return [(v, lits + literals(it[1], True)) for v, lits in a] + [(v, lits + literals(it[1], False)) for v, lits in b]
        if k == 'gencall':
            fnode = self.funcs[it[1]][0]
            if len(self.stack) >= MAX_DEPTH or any(n is fnode for n, _ in self.stack):
                return None
            ys = self._invoke(it[1], it[2], dict(it[3]), node, gen=True)
            return [(v, list(g)) for g, v in ys]
        return [(('elem', it), [])]

    # ------------------------------------------------------------------ binding
    def bind(self, target, value, env, node, quiet=False):
        if isinstance(target, ast.Name):
            env.set(target.id, value)
            if not quiet:
                self.emit('assign', value, node, extra=target.id)
        elif isinstance(target, (ast.Tuple, ast.List)):
            if any(isinstance(t, ast.Starred) for t in target.elts):
                for t in target.elts:
                    self.bind(t.value if isinstance(t, ast.Starred) else t, self.fresh('unpack'), env, node, quiet)
            else:
                n = len(target.elts)
                # `a, b = v` is `v[0], v[1]` only if v certainly has n elements; otherwise it fails differently (ValueError, not
                # IndexError) on a short v, so the element stays a distinct term
                exact = (value[0] in ('tuple', 'list') and len(value[1]) == n) or fixed_arity(value) == n or value[0] == 'phi'
                for i, t in enumerate(target.elts):
                    self.bind(t, self.sub(value, const(i)) if exact else ('unpack', value, i, n), env, node, quiet)
        elif isinstance(target, ast.Attribute):
            self.emit('store', ('attr', self.eval(target.value, env), target.attr), node, extra=value)
        elif isinstance(target, ast.Subscript):
            self.emit('store', ('sub', self.eval(target.value, env), self.eval(target.slice, env)), node, extra=value)
        elif isinstance(target, ast.Starred):
            self.bind(target.value, self.fresh('unpack'), env, node, quiet)

    # ------------------------------------------------------------------ statements
    RANK = {'loop': 1, 'func': 2, 'raise': 3}

    def block(self, stmts, env):
        for st in stmts:
            k = self.stmt(st, env)
            if k:
                return k
        return None

    def stmt(self, st, env):
        m = getattr(self, 's_' + type(st).__name__, None)
        if m is None:
            self.emit('unknown-stmt', const(type(st).__name__), st)
            return None
        return m(st, env)

    def s_Pass(self, st, env):
        return None

    def s_Expr(self, st, env):
        if isinstance(st.value, ast.Constant):
            return None
        self.eval(st.value, env)
        return None

    def s_Assign(self, st, env):
        v = self.eval(st.value, env)
        for t in st.targets:
            self.bind(t, v, env, st)
        return None

    def s_AnnAssign(self, st, env):
        if st.value is not None:
            self.bind(st.target, self.eval(st.value, env), env, st)
        return None

    def s_AugAssign(self, st, env):
        cur = self.eval(ast.copy_location(_load(st.target), st.target), env)
        v = self.binop(type(st.op).__name__, cur, self.eval(st.value, env))
        self.bind(st.target, v, env, st)
        return None

    def s_Delete(self, st, env):
        for t in st.targets:
            self.emit('delete', self.eval(_load(t), env), st)
        return None

    def s_Global(self, st, env):
        return None

    def s_Nonlocal(self, st, env):
        env.nonlocals.update(st.names)
        return None

    def s_Import(self, st, env):
        for k, v in import_bindings(st).items():
            env.set(k, ('global', v))
        return None

    s_ImportFrom = s_Import

    def s_FunctionDef(self, st, env):
        env.set(st.name, ('func', self._func(st, env, None), st.name))
        return None

    s_AsyncFunctionDef = s_FunctionDef

    def s_ClassDef(self, st, env):
        env.set(st.name, ('localclass', st.name))
        return None

    def s_Return(self, st, env):
        v = self.eval(st.value, env) if st.value is not None else NONE
        self.emit('return', v, st)
        if self.frames:
            self.frames[-1]['returns'].append((self._relative_guard(self.frames[-1]['mark']), v))
        return 'func'

    def s_Raise(self, st, env):
        v = self.eval(st.exc, env) if st.exc is not None else NONE
        self.emit('raise', v, st)
        return 'raise'

    def s_Assert(self, st, env):
        self.emit('assert', truthy(self.eval(st.test, env)), st)
        return None

    def s_Break(self, st, env):
        self.emit('break', NONE, st)
        return 'loop'

    def s_Continue(self, st, env):
        self.emit('continue', NONE, st)
        return 'loop'

    def _branch(self, lits, body, env, tag):
        """run `body` under the literals; → (termination kind, literals established by exits inside that hold if the branch was
        entered, as implications for the outside)"""
        mark = len(self.guard)
        self.guard += [(l, 'branch') for l in lits]
        k = self.block(body, env) if body else None
        inner = [(g, o) for g, o in self.guard[mark + len(lits):] if o.startswith('term:')]
        del self.guard[mark:]
        return k, inner

    def s_If(self, st, env):
        c = truthy(self.eval(st.test, env))
        if is_const(c):
            return self.block(st.body if c[1] else st.orelse, env)
        pos, neg = literals(c, True), literals(c, False)
        before = dict(env.vars)
        k1, in1 = self._branch(pos, st.body, env, 'then')
        v1 = env.vars
        env.vars = dict(before)
        k2, in2 = self._branch(neg, st.orelse, env, 'else')
        v2 = env.vars
        if k1 and k2:
            env.vars = v2
            return k1 if self.RANK[k1] <= self.RANK[k2] else k2
        if k1:
            env.vars = v2
            self.guard += [(l, 'term:' + k1) for l in neg]
        elif k2:
            env.vars = v1
            self.guard += [(l, 'term:' + k2) for l in pos]
        else:
            merged = {}
            for name in set(v1) | set(v2):
                a, b = v1.get(name), v2.get(name)
                if a is None or b is None:
                    a = a if a is not None else ('unbound', name)
                    b = b if b is not None else ('unbound', name)
                merged[name] = a if a == b else mk_phi(c, a, b)
            env.vars = merged
        # exits nested inside a branch that itself continues: (branch taken → literal) stays known
        for lits, inner, took in ((pos, in1, k1), (neg, in2, k2)):
            if took:
                continue
            negs = []
            for l in lits:
                n = negate_item(l)
                if n is None or len(n) != 1:
                    negs = None
                    break
                negs.extend(n)
            if negs is None:
                continue
            for g, o in inner:
                self.guard.append((mk_disj(negs + [g]), o))
        return None

    def _loop_prologue(self, loop, names, env):
        for n in sorted(names):
            cur = env.get(n)
            loop.init[n] = cur if cur is not None else ('unbound', n)
            env.set(n, ('carried', loop.id, n))

    def _loop_epilogue(self, loop, names, env, k):
        for n in sorted(names):
            v = env.get(n)
            loop.next[n] = v if v is not None else ('unbound', n)
        for n in sorted(names):
            env.set(n, ('carried', loop.id, n))

    def s_For(self, st, env):
        it = self.eval(st.iter, env)
        lid = next(self.ids)
        loop = self.loops[lid] = Loop(lid, 'for', st)
        loop.iter = it
        loop.outer_guard = frozenset(g for g, _ in self.guard)
        # `for x in iter(callable, sentinel)`  ≡  `while True: x = callable(); if x == sentinel: break; …`
        sentinel = None
        if it[0] == 'call' and it[1] == ('global', 'iter') and len(it[2]) == 2:
            sentinel = it[2][1]
            got = self.call(it[2][0], (), {}, st, env)
            alts = [(got, literals(mk_cmp('eq', got, sentinel), False))]
            loop.kind = 'iter-sentinel'
        else:
            alts = self.iter_elems(it, st)
        targets = assigned_names([st.target])
        names = assigned_names(st.body) - targets
        seq = self._unrollable(it)
        if seq is not None and sentinel is None:
            # a loop over a small constant range / display is executed iteration by iteration (no carried symbols)
            loop.kind = 'unrolled'
            for v in seq:
                self.ctx.append(('unrolled', lid))
                mark = len(self.guard)
                self.bind(st.target, v, env, st, quiet=True)
                k = self.block(st.body, env)
                del self.guard[mark:]
                self.ctx.pop()
                if k in ('func', 'raise'):
                    return k
            if st.orelse:
                return self.block(st.orelse, env)
            return None
        self._loop_prologue(loop, names, env)
        before = dict(env.vars)
        ends = []
        for v, lits in (alts or []):
            env.vars = dict(before)
            self.ctx.append(('for', lid))
            mark = len(self.guard)
            self.guard += [(l, 'iter') for l in lits]
            self.bind(st.target, v, env, st, quiet=True)
            k = self.block(st.body, env)
            del self.guard[mark:]
            self.ctx.pop()
            ends.append(dict(env.vars))
        env.vars = ends[-1] if ends else dict(before)
        self._loop_epilogue(loop, names, env, None)
        if st.orelse:
            self.block(st.orelse, env)
        return None

    @staticmethod
    def _unrollable(it):
        """the elements of a constant `range(…)` of at most 8 elements → list of terms, else None"""
        if it[0] == 'call' and it[1] == ('global', 'range') and 1 <= len(it[2]) <= 3 and not it[3] and all(is_const(a, int) for a in it[2]):
            try:
                r = range(*[a[1] for a in it[2]])
            except Exception:  # noqa: BLE001
                return None
            if len(r) <= 8:
                return [const(i) for i in r]
        return None

    s_AsyncFor = s_For

    def s_While(self, st, env):
        lid = next(self.ids)
        loop = self.loops[lid] = Loop(lid, 'while', st)
        loop.outer_guard = frozenset(g for g, _ in self.guard)
        names = assigned_names(st.body) | assigned_names([st.test])
        self._loop_prologue(loop, names, env)
        self.ctx.append(('while', lid))
        mark = len(self.guard)
        loop.test = truthy(self.eval(st.test, env))
        loop.test_env = {n: env.get(n) for n in names}
        self.guard += [(l, 'iter') for l in literals(loop.test, True)]
        self.block(st.body, env)
        del self.guard[mark:]
        self.ctx.pop()
        self._loop_epilogue(loop, names, env, None)
        if st.orelse:
            self.block(st.orelse, env)
        return None

    def s_With(self, st, env):
        wid = next(self.ids)
        vals = []
        for item in st.items:
            v = self.eval(item.context_expr, env)
            vals.append(v)
            if item.optional_vars is not None:
                self.bind(item.optional_vars, v, env, st)
        self.ctx.append(('with', wid, tuple(vals)))
        mark = len(self.guard)
        swallows = any(global_call(v, ('contextlib.suppress',)) is not None for v in vals)
        try:
            k = self.block(st.body, env)
        finally:
            self.ctx.pop()
        if swallows:
            # an exception raised inside `with suppress(…)` may be swallowed: nothing learnt from exits inside holds afterwards
            del self.guard[mark:]
            if k == 'raise':
                k = None
        return k

    s_AsyncWith = s_With

    def s_Try(self, st, env):
        tid = next(self.ids)
        info = self.trys[tid] = {'node': st, 'handlers': [], 'has_finally': bool(st.finalbody)}
        self.ctx.append(('try-body', tid))
        mark = len(self.guard)
        kb = self.block(st.body, env)
        del self.guard[mark:]
        self.ctx.pop()
        body_end = dict(env.vars)
        outcomes = []
        if st.orelse and not kb:
            self.ctx.append(('try-else', tid))
            kb = self.block(st.orelse, env)
            del self.guard[mark:]
            self.ctx.pop()
        outcomes.append((kb, dict(env.vars)))
        for i, h in enumerate(st.handlers):
            env.vars = dict(body_end)
            typ = self.eval(h.type, env) if h.type is not None else NONE
            if h.name:
                env.set(h.name, ('exc', tid, i))
            self.ctx.append(('handler', tid, i))
            seq0 = len(self.events)
            kh = self.block(h.body, env)
            del self.guard[mark:]
            self.ctx.pop()
            info['handlers'].append({'type': typ, 'name': h.name, 'term': kh, 'events': (seq0, len(self.events))})
            outcomes.append((kh, dict(env.vars)))
        live = [vs for k, vs in outcomes if not k]
        if live:
            merged = {}
            for name in set().union(*live):
                vals = [vs.get(name) for vs in live]
                merged[name] = vals[0] if all(v == vals[0] for v in vals) else ('join', tid, tuple(v if v is not None else ('unbound', name) for v in vals))
            env.vars = merged
            result = None
        else:
            env.vars = outcomes[0][1]
            result = min((k for k, _ in outcomes), key=lambda k: self.RANK[k])
        if st.finalbody:
            self.ctx.append(('finally', tid))
            kf = self.block(st.finalbody, env)
            del self.guard[mark:]
            self.ctx.pop()
            if kf:
                return kf
        return result

    s_TryStar = s_Try


def fixed_arity(v):
    """number of elements the value certainly has (str.partition / rpartition → 3, os.path.split / splitext / divmod → 2, an element of
    `.items()` / `enumerate(…)` / `zip(a, b)` → 2) or None"""
    if v[0] == 'call':
        f = v[1]
        if f[0] == 'attr' and f[2] in ('rpartition', 'partition') and len(v[2]) == 1:
            return 3
        if f[0] == 'global' and f[1] in ('os.path.split', 'os.path.splitext', 'posixpath.split', 'posixpath.splitext', 'divmod'):
            return 2
    if v[0] == 'elem':
        it = v[1]
        if it[0] == 'call':
            f = it[1]
            if f[0] == 'attr' and f[2] == 'items' and not it[2]:
                return 2
            if f == ('global', 'enumerate'):
                return 2
            if f == ('global', 'zip') and it[2]:
                return len(it[2])
    return None


def _deco_name(d):
    if isinstance(d, ast.Call):
        d = d.func
    return d.attr if isinstance(d, ast.Attribute) else (d.id if isinstance(d, ast.Name) else None)


def _load(target):
    """the same expression in Load context"""
    n = ast.parse(ast.unparse(target), mode='eval').body
    return n


def item_term(it):
    atom, pol = it
    if isinstance(atom, tuple) and atom and atom[0] == 'or' and isinstance(atom[1], frozenset):
        return mk_or([item_term(x) for x in sorted(atom[1], key=repr)])
    return atom if pol else mk_not(atom)


def mk_concat(parts):
    """string concatenation (f-strings and `+` on strings): adjacent constants merged"""
    flat = []
    for p in parts:
        if p[0] == 'concat':
            flat.extend(p[1])
        else:
            flat.append(p)
    out = []
    for p in flat:
        if is_const(p, str) and out and is_const(out[-1], str):
            out[-1] = const(out[-1][1] + p[1])
        elif is_const(p, str) and p[1] == '':
            continue
        else:
            out.append(p)
    if not out:
        return const('')
    if len(out) == 1 and is_const(out[0], str):
        return out[0]
    return ('concat', tuple(out))


# ------------------------------------------------------------------------------------------------ loops
def continue_condition(interp, loop, events):
    """the guard items under which ANOTHER iteration follows a completed one, for a `while` loop:
        ¬(some exit of this iteration)  ∧  test[carried ↦ value at the end of the iteration]
    → frozenset of items, or None when it is not a plain conjunction.  Exits = break / return / raise events of the body."""
    lid = loop.id
    body = [e for e in events if any(c[0] == 'while' and c[1] == lid for c in e.ctx)]
    items = set()
    test_lits = set(literals(loop.test, True)) if loop.test is not None else set()
    for e in body:
        tail = e.ctx[[i for i, c in enumerate(e.ctx) if c[0] == 'while' and c[1] == lid][0] + 1:]
        if e.kind == 'break' and any(c[0] in ('for', 'while') for c in tail):
            continue            # leaves an inner loop only
        if e.kind == 'return' and any(c[0] in ('inline', 'deferred', 'comp') for c in tail):
            continue            # return of an inlined helper
        if e.kind in ('break', 'return'):
            rel = set(e.guard) - set(loop.outer_guard) - test_lits
            if len(rel) != 1:
                return None
            n = negate_item(next(iter(rel)))
            if n is None:
                return None
            items.update(n)
    if loop.test is not None and not is_const(loop.test):
        t = substitute(loop.test, {('carried', lid, n): v for n, v in loop.next.items()})
        items.update(literals(simplify(t), True))
    elif loop.test is not None and is_const(loop.test) and not loop.test[1]:
        return None
    return frozenset(items)


def first_iteration_condition(loop):
    """the loop test with the carried variables at their initial values"""
    if loop.test is None:
        return None
    return simplify(substitute(loop.test, {('carried', loop.id, n): v for n, v in loop.init.items()}))


def substitute(v, mapping):
    if not isinstance(v, tuple):
        if isinstance(v, frozenset):
            return frozenset(substitute(x, mapping) for x in v)
        return v
    if v in mapping:
        return mapping[v]
    return tuple(substitute(x, mapping) for x in v)


def simplify(v):
    """re-normalise a condition term after substitution"""
    if not isinstance(v, tuple) or not v or not isinstance(v[0], str):
        return v
    k = v[0]
    if k == 'not':
        return mk_not(truthy(simplify(v[1])))
    if k == 'and':
        return mk_and([truthy(simplify(x)) for x in v[1]])
    if k == 'or':
        return mk_or([truthy(simplify(x)) for x in v[1]])
    if k == 'isnone':
        x = simplify(v[1])
        return mk_cmp('is', x, NONE)
    if k in ('eq', 'is', 'lt', 'le', 'in'):
        return mk_cmp(k, simplify(v[1]), simplify(v[2]))
    if k == 'phi':
        return mk_phi(simplify(v[1]), simplify(v[2]), simplify(v[3]))
    return v


# ------------------------------------------------------------------------------------------------ printing
def show(v, depth=0):
    if not isinstance(v, tuple) or not v:
        return repr(v)
    if depth > 12:
        return '…'
    k = v[0]
    s = lambda x: show(x, depth + 1)  # noqa: E731
    if k == 'const':
        return repr(v[1])
    if k == 'self':
        return 'self'
    if k == 'arg':
        return f'<arg {v[1]}>'
    if k == 'global':
        return v[1]
    if k == 'modvar':
        return v[1]
    if k == 'attr':
        return f'{s(v[1])}.{v[2]}'
    if k == 'sub':
        return f'{s(v[1])}[{s(v[2])}]'
    if k == 'slice':
        return ':'.join('' if x == NONE else s(x) for x in v[1:])
    if k == 'call':
        a = [s(x) for x in v[2]] + [f'{kk}={s(x)}' for kk, x in v[3]]
        return f'{s(v[1])}({", ".join(a)})'
    if k == 'binop':
        return f'({s(v[2])} {v[1]} {s(v[3])})'
    if k in ('eq', 'is', 'lt', 'le', 'in'):
        return f'({s(v[1])} {k} {s(v[2])})'
    if k == 'isnone':
        return f'isnone({s(v[1])})'
    if k == 'not':
        return f'¬{s(v[1])}'
    if k in ('and', 'or'):
        return '(' + f' {k} '.join(s(x) for x in v[1]) + ')'
    if k == 'phi':
        return f'({s(v[2])} if {s(v[1])} else {s(v[3])})'
    if k in ('tuple', 'list'):
        return ('(%s)' if k == 'tuple' else '[%s]') % ', '.join(s(x) for x in v[1])
    if k == 'concat':
        return 'f"' + ''.join(x[1] if is_const(x, str) else '{' + s(x) + '}' for x in v[1]) + '"'
    if k == 'elem':
        return f'elem({s(v[1])})'
    if k == 'func':
        return f'<fn {v[2]}>'
    if k == 'comp':
        return f'[{s(v[1])} …]'
    if k == 'star':
        return '*' + s(v[1])
    return '(' + ' '.join(show(x, depth + 1) if isinstance(x, tuple) else repr(x) for x in v) + ')'


def show_guard(g):
    out = []
    for atom, pol in sorted(g, key=repr):
        if isinstance(atom, tuple) and atom and atom[0] == 'or' and isinstance(atom[1], frozenset):
            out.append('(' + ' ∨ '.join(('' if p else '¬') + show(a) for a, p in sorted(atom[1], key=repr)) + ')')
        else:
            out.append(('' if pol else '¬') + show(atom))
    return '{' + ', '.join(out) + '}'


# ------------------------------------------------------------------------------------------------ common queries
def strip_wrappers(v, names=('pathlib.Path', 'pathlib.PurePath', 'pathlib.PosixPath', 'str', 'os.fspath', 'os.fsdecode', 'os.path.normpath')):
    """`Path(x)`, `str(x)`, `os.fspath(x)` → x"""
    while v[0] == 'call' and v[1][0] == 'global' and v[1][1] in names and len(v[2]) == 1 and not v[3]:
        v = v[2][0]
    return v


def method_call(v, names):
    """`<recv>.<name>(…)` with name in names → (recv, name, args, kwargs) else None"""
    if v[0] == 'call' and v[1][0] == 'attr' and v[1][2] in names:
        return v[1][1], v[1][2], v[2], dict(v[3])
    return None


def global_call(v, names):
    """call of an imported / builtin function whose dotted origin ends with one of `names`"""
    if v[0] == 'call' and v[1][0] == 'global':
        d = v[1][1]
        for n in names:
            if d == n or d.endswith('.' + n):
                return n, v[2], dict(v[3])
    return None


def invocations(v, is_target):
    """arguments with which a callable satisfying `is_target` is invoked inside term v — directly (`f(a, b)`) or handed, followed by
    its arguments, to something that runs it (`run_in_executor(ex, f, a, b)`, `partial(f, a, b)`, `self._maybe_run(f, a, b)`)"""
    out = []
    for t in subterms(v):
        if t[0] == 'call':
            if is_target(t[1]):
                out.append((t[2], dict(t[3]), 'direct'))
            elif t[1][0] == 'global' and (t[1][1].startswith('inspect.') or t[1][1] in ('isinstance', 'callable', 'hasattr', 'getattr', 'asyncio.iscoroutinefunction')):
                continue            # asking ABOUT the callable is not running it
            else:
                for i, a in enumerate(t[2]):
                    if is_target(a):
                        out.append((t[2][i + 1:], dict(t[3]), 'deferred'))
        elif t[0] == 'partial' and is_target(t[1]):
            out.append((t[2], dict(t[3]), 'deferred'))
    return out
