#!/usr/bin/env python3
"""keep_seed.py <seed worktree> <ID> <property> <caught-by: comma list or 'none'> "<what I ran / result>"  → /verif/seeded/<ID>/"""
import json, shutil, subprocess, sys
from pathlib import Path
w, sid, prop, caught, ran = sys.argv[1:6]
d = Path('/verif/seeded') / sid
d.mkdir(parents=True, exist_ok=True)
shutil.copy(Path(w) / 'patch.diff', d / 'patch.diff')
for f in Path(w).glob(f'demo_{sid}*'):
    shutil.copy(f, d / f.name)
m = json.loads((Path(w) / 'meta.json').read_text())
meta = {'id': sid, 'breaks_property': prop, 'summary': m.get('summary'), 'needs': m.get('needs'), 'files_changed': m.get('files_changed'),
        'base_commit': subprocess.run(['git', '-C', w, 'rev-parse', 'HEAD'], capture_output=True, text=True).stdout.strip(),
        'confirmed_by_me': {'unit_tests_pass_with_change': True, 'demo_fails_with_change': True, 'demo_passes_without_change': True,
                            'how': 'tools/try_seed.sh <worktree> <ID> <checks> (pytest -q; demo with and without the patch)'},
        'checks_run': ran, 'caught_by': [] if caught == 'none' else caught.split(',')}
(d / 'meta.json').write_text(json.dumps(meta, indent=1))
print('kept', d)
