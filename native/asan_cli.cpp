// ASan/UBSan line-protocol CLI: each request copies the buffer into an exact-size heap block
// so that any read past the end is reported deterministically.
// line: <min> <max> <keyhex> <final 0|1> <bufhex>     reply: cut=<n>
#include REPO_ADAPTERS_CPP
#include <cstdio>
#include <cstring>
#include <cstdlib>
#include <string>
#include <iostream>
#include <vector>
static std::vector<unsigned char> unhex(const std::string& s) {
    std::vector<unsigned char> v; v.reserve(s.size() / 2);
    for (size_t i = 0; i + 1 < s.size(); i += 2) v.push_back((unsigned char)strtol(s.substr(i, 2).c_str(), nullptr, 16));
    return v;
}
int main() {
    std::string line;
    while (std::getline(std::cin, line)) {
        size_t mn, mx; int fin; char keyhex[64]; 
        std::vector<char> bufhex(line.size() + 1);
        bufhex[0] = 0;
        int n = sscanf(line.c_str(), "%zu %zu %63s %d %s", &mn, &mx, keyhex, &fin, bufhex.data());
        if (n < 4) { printf("bad\n"); fflush(stdout); continue; }
        auto key = unhex(keyhex);
        std::string bh = (n == 5) ? std::string(bufhex.data()) : std::string();
        if (bh == "-") bh = "";
        auto data = unhex(bh);
        try {
            py::buffer k((void*)key.data(), (std::ptrdiff_t)key.size());
            gclmulchunker c(mn, mx, k);
            char* exact = (char*)malloc(data.size() ? data.size() : 1);
            if (data.size()) memcpy(exact, data.data(), data.size());
            py::buffer b((void*)exact, (std::ptrdiff_t)data.size());
            size_t cut = c.next_cut(b, fin != 0);
            free(exact);
            printf("cut=%zu\n", cut);
        } catch (const std::exception& e) { printf("err=%s\n", e.what()); }
        fflush(stdout);
    }
    return 0;
}
