// Minimal stand-in for pybind11 (absent from this sandbox). Provides exactly what
// /repo/src/adapters.cpp uses: py::buffer, py::buffer_info (ptr, size), and inert
// class_/init/PYBIND11_MODULE so the file compiles UNCHANGED.
#pragma once
#include <cstddef>
namespace pybind11 {
struct buffer_info { void* ptr; std::ptrdiff_t size; };
struct buffer {
    void* p; std::ptrdiff_t n;
    buffer(void* p_, std::ptrdiff_t n_) : p(p_), n(n_) {}
    buffer_info request() const { return buffer_info{p, n}; }
};
struct module_ {};
template <typename... A> struct init {};
template <typename T> struct class_ {
    template <typename M> class_(M&, const char*) {}
    template <typename I> class_& def(I) { return *this; }
    template <typename F> class_& def(const char*, F) { return *this; }
    template <typename F> class_& def_readonly(const char*, F) { return *this; }
};
}
#define PYBIND11_MODULE(name, var) static void verif_unused_module_##name(pybind11::module_& var)
