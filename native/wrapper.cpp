// Includes the repository's chunker source unchanged and exports a C ABI.
#include REPO_ADAPTERS_CPP
#include <cstring>
#include <cstdlib>
extern "C" {
// returns 0 on success, else error code 1 (invalid_argument) and copies message
int gcl_new(size_t min_length, size_t max_length, const char* key, size_t keylen, void** out, char* err, size_t errlen) {
    try {
        py::buffer k((void*)key, (std::ptrdiff_t)keylen);
        *out = new gclmulchunker(min_length, max_length, k);
        return 0;
    } catch (const std::invalid_argument& e) {
        strncpy(err, e.what(), errlen - 1); err[errlen - 1] = 0; return 1;
    } catch (const std::exception& e) {
        strncpy(err, e.what(), errlen - 1); err[errlen - 1] = 0; return 2;
    }
}
size_t gcl_next_cut(void* c, const char* buf, size_t size, int final) {
    py::buffer b((void*)buf, (std::ptrdiff_t)size);
    return static_cast<gclmulchunker*>(c)->next_cut(b, final != 0);
}
size_t gcl_min(void* c) { return static_cast<gclmulchunker*>(c)->min_length; }
size_t gcl_max(void* c) { return static_cast<gclmulchunker*>(c)->max_length; }
void gcl_free(void* c) { delete static_cast<gclmulchunker*>(c); }
}
