"""ctypes stand-in for the pybind11 extension, backed by the shared object that
harness.build compiles from /repo/src/adapters.cpp on every run."""
import ctypes, os
_lib = ctypes.CDLL(os.environ.get('REPLICAT_VERIF_GCL_SO') or os.path.join(os.path.dirname(__file__), '..', '..', '.work', 'native', 'libgcl.so'))
_lib.gcl_new.argtypes = [ctypes.c_size_t, ctypes.c_size_t, ctypes.c_char_p, ctypes.c_size_t, ctypes.POINTER(ctypes.c_void_p), ctypes.c_char_p, ctypes.c_size_t]
_lib.gcl_new.restype = ctypes.c_int
_lib.gcl_next_cut.argtypes = [ctypes.c_void_p, ctypes.c_void_p, ctypes.c_size_t, ctypes.c_int]
_lib.gcl_next_cut.restype = ctypes.c_size_t
_lib.gcl_min.argtypes = [ctypes.c_void_p]; _lib.gcl_min.restype = ctypes.c_size_t
_lib.gcl_max.argtypes = [ctypes.c_void_p]; _lib.gcl_max.restype = ctypes.c_size_t
_lib.gcl_free.argtypes = [ctypes.c_void_p]; _lib.gcl_free.restype = None

VERIF_REBUILT = True


class _gclmulchunker:
    def __init__(self, min_length, max_length, key):
        if min_length < 0 or max_length < 0:
            raise TypeError('incompatible constructor arguments')
        if not isinstance(min_length, int) or not isinstance(max_length, int):
            raise TypeError('incompatible constructor arguments')
        key = bytes(key)
        out = ctypes.c_void_p()
        err = ctypes.create_string_buffer(256)
        rc = _lib.gcl_new(min_length, max_length, key, len(key), ctypes.byref(out), err, 256)
        if rc == 1:
            raise ValueError(err.value.decode())
        if rc:
            raise RuntimeError(err.value.decode())
        self._h = out

    @property
    def min_length(self):
        return _lib.gcl_min(self._h)

    @property
    def max_length(self):
        return _lib.gcl_max(self._h)

    def next_cut(self, buffer, final=False):
        n = len(buffer)
        if n == 0:
            return _lib.gcl_next_cut(self._h, None, 0, int(bool(final)))
        if isinstance(buffer, bytearray):
            arr = (ctypes.c_char * n).from_buffer(buffer)
            try:
                return _lib.gcl_next_cut(self._h, ctypes.addressof(arr), n, int(bool(final)))
            finally:
                del arr
        b = bytes(buffer)
        return _lib.gcl_next_cut(self._h, b, n, int(bool(final)))

    def __del__(self):
        h, self._h = getattr(self, '_h', None), None
        if h:
            _lib.gcl_free(h)
